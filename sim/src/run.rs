//! One simulated run: property definition, oracle interface, executor loop, shrinking.

use crate::events::*;
use crate::gen::Profile;
use crate::monitor::{self, PanicInfo};
use crate::world::*;
use serde::{Deserialize, Serialize};

pub trait Oracle {
    fn before(&mut self, _w: &mut World, _ev: &Ev) {}
    fn after(&mut self, w: &mut World, ev: &Ev, out: &Outcome) -> Result<(), Violation>;
    fn finish(&mut self, w: &mut World) -> Result<(), Violation>;
    /// Some(digest) when this run counts as a non-trivial case by the property's rule
    fn nontrivial(&self, w: &World) -> Option<u64>;
}

pub struct PropDef {
    pub id: &'static str,
    pub title: &'static str,
    pub level: &'static str,
    pub profile: fn() -> Profile,
    pub oracle: fn(&Cfg) -> Box<dyn Oracle>,
    pub quick_runs: u64,
    pub thorough_runs: u64,
    /// a library panic is itself a violation of this property
    pub panic_is_violation: bool,
    pub rule: &'static str,
    /// custom runner (fault-enumeration style checks); when set, `profile`/`oracle` only build the input
    pub custom: Option<fn(&PropDef, u64, &Cfg, &[Ev]) -> RunReport>,
    /// the workload can make the process abort, exhaust memory or hang: run under the allocator cap, announce runs, watchdog
    pub abort_prone: bool,
    pub probes: &'static [&'static str],
    pub fault_kinds: &'static [&'static str],
}

#[derive(Clone, Debug, Serialize, Deserialize)]
pub enum Verdict {
    Held,
    Violation(Violation),
    /// a library panic in a property that is not about panics: the run is discarded and counted
    DiscardedPanic(PanicInfo),
    HarnessError(String),
}

#[derive(Clone, Debug, Serialize, Deserialize)]
pub struct RunReport {
    pub verdict: Verdict,
    pub stats: Stats,
    pub nontrivial: Option<u64>,
    pub steps: u64,
    pub interleaving: u64,
    pub state_digest: u64,
    pub clock_span: i64,
}

#[derive(Serialize, Deserialize, Clone, Debug)]
pub struct ReplayFile {
    pub property: String,
    pub engine_version: u32,
    pub run_seed: u64,
    pub cfg: Cfg,
    pub events: Vec<Ev>,
    pub expected: Violation,
    pub minimised: bool,
    pub original_events: usize,
}

pub const ENGINE_VERSION: u32 = 1;

/// properties whose inputs are adversarial: panics are identified by source file + panic kind (see DESIGN.md 7)
pub const COARSE_SIGNATURES: [&str; 7] = ["C06", "C14", "C15", "C16", "C17", "C23", "C39"];

/// the recorded "stale actor index after isolate/integrate" panic (C37) is an index-out-of-bounds in op_set.rs like any other
/// indexing slip in that file; it is told apart by the one thing it needs: isolation was used in the run
fn panic_signature_with_tags(p: &crate::monitor::PanicInfo, world: &World) -> String {
    let mut s = p.signature();
    if p.file.ends_with("op_set2/op_set.rs") && p.message.starts_with("index out of bounds") && world.tags.contains("isolation-used") {
        s.push_str(":after-isolation");
    }
    s
}

fn install_hooks(cfg: &Cfg) {
    automerge::verif_hooks::install(automerge::verif_hooks::Controller {
        actor_stream: Some(0xAC70_0000_0000_0000 ^ cfg.p1 as u64),
        anonymize_seed: Some(0xA707 ^ cfg.p2 as u64),
        bloom_fp_permille: cfg.bloom_fp_permille,
        bloom_key: ((cfg.p1 as u64) << 32) | cfg.p2 as u64,
        bloom_queries: 0,
        bloom_forced: 0,
        // tuning knob varied per run (hook H6): the op count above which a change is written by the row-wise encoder
        // (built-in: 10000, which no generated change reaches)
        rowwise_threshold: match cfg.p2 % 8 {
            0 => Some(3),
            1 => Some(40),
            _ => None,
        },
    });
}

pub fn execute(prop: &PropDef, run_seed: u64, cfg: &Cfg, evs: &[Ev]) -> RunReport {
    if let Some(custom) = prop.custom {
        return custom(prop, run_seed, cfg, evs);
    }
    execute_with(prop, cfg, evs, (prop.oracle)(cfg))
}

pub fn execute_with(prop: &PropDef, cfg: &Cfg, evs: &[Ev], mut oracle: Box<dyn Oracle>) -> RunReport {
    install_hooks(cfg);
    let trace = std::env::var("AMSIM_TRACE").is_ok();
    let mut world = World::new(cfg.clone());
    // set as soon as one byzantine event (corrupted packet / sync message / file / id) has started: from then on a
    // library panic is the business of C15/C16 (crafted input), not of the property whose honest workload this is
    let byz_seen = std::cell::Cell::new(false);
    let res = monitor::guarded(|| -> Result<(), Violation> {
        for ev in evs {
            if ev.is_byzantine() {
                byz_seen.set(true);
            }
            oracle.before(&mut world, ev);
            let out = world.exec(ev);
            if trace {
                let s = format!("{out:?}");
                eprintln!("[{}] {} -> {}", world.step, serde_json::to_string(ev).unwrap_or_default(), &s[..s.len().min(400)]);
            }
            if matches!(out, Outcome::Nop) {
                continue;
            }
            oracle.after(&mut world, ev, &out)?;
            if world.harness_error.is_some() {
                return Ok(());
            }
        }
        monitor::set_context(world.step + 1, "quiesce");
        oracle.finish(&mut world)
    });
    if let Some(c) = automerge::verif_hooks::uninstall() {
        if c.bloom_forced > 0 {
            world.stats.add("fault.bloom_fp_forced", c.bloom_forced);
        }
    }
    let verdict = match res {
        Ok(Ok(())) => match &world.harness_error {
            Some(e) => Verdict::HarnessError(e.clone()),
            None => Verdict::Held,
        },
        Ok(Err(mut v)) => {
            // two recorded defect areas get a signature of their own, so that the entry in known_findings.json names them and
            // nothing else: edits made under isolate()/transaction_at() on a text that holds a conflicted element (index
            // maintenance under a scope), and counters put into a text
            if world.tags.contains("isolated-edit-of-conflicted-text") && v.signature.ends_with(":text") {
                v.signature.push_str(":after-isolated-edit-of-conflicted-text");
            }
            if world.tags.contains("counter-in-text") && (v.signature == "cursor-units" || v.signature == "length-vs-text-width") {
                v.signature.push_str(":counter-in-text");
            }
            Verdict::Violation(v)
        }
        Err(p) => {
            if p.is_harness() {
                Verdict::HarnessError(format!("harness panic at {}:{}: {}", p.file, p.line, p.message))
            } else if prop.panic_is_violation {
                Verdict::Violation(Violation {
                    property: prop.id.into(),
                    oracle: "no_panic".into(),
                    // byzantine-input properties identify a finding by the source file that panics: the tail of
                    // distinct unwrap/index sites inside one decoder is long and input-dependent
                    signature: if COARSE_SIGNATURES.contains(&prop.id) { p.coarse_signature() } else { panic_signature_with_tags(&p, &world) },
                    step: p.step,
                    detail: format!("{} panicked at {}:{}: {}", p.context, p.file, p.line, p.message),
                })
            } else if prop.id == "C17" && p.message.contains("capacity overflow") {
                // Rust refusing a request above isize::MAX bytes: the input asked for an absurd allocation. The panic itself
                // is C15's business; the attempted size is exactly what C17 bounds.
                Verdict::Violation(Violation {
                    property: prop.id.into(),
                    oracle: "bounded_allocation".into(),
                    signature: format!("capacity-overflow:{}", p.file.rsplit("/rust/").next().unwrap_or(&p.file)),
                    step: p.step,
                    detail: format!("{} asked for more than isize::MAX bytes ({}:{}: {})", p.context, p.file, p.line, p.message),
                })
            } else if !byz_seen.get() {
                // An honest run (no crafted input so far) in which a public call panicked: whatever the property promises
                // about that call, it did not happen. Reported under this property with its own oracle name; the worker
                // sets it aside (counted, NOTE) when the signature is one of C37's recorded findings, so that one recorded
                // panic is not reported forty times over.
                Verdict::Violation(Violation {
                    property: prop.id.into(),
                    oracle: "no_panic_in_run".into(),
                    signature: panic_signature_with_tags(&p, &world),
                    step: p.step,
                    detail: format!("{} panicked at {}:{}: {}", p.context, p.file, p.line, p.message),
                })
            } else {
                Verdict::DiscardedPanic(p)
            }
        }
    };
    let nontrivial = match verdict {
        Verdict::Held => {
            let o = &oracle;
            monitor::guarded(|| o.nontrivial(&world)).unwrap_or(None)
        }
        _ => None,
    };
    let mut sd = crate::prng::Fnv::new();
    for r in &world.reps {
        sd.u64(r.known.len() as u64);
        for h in &r.known {
            sd.write(&h[..8]);
        }
    }
    let clock_span = world.reps.iter().map(|r| r.clock - 1_700_000_000).max().unwrap_or(0);
    RunReport {
        verdict,
        stats: world.stats.clone(),
        nontrivial,
        steps: world.step,
        interleaving: world.interleaving.finish(),
        state_digest: sd.finish(),
        clock_span,
    }
}

/// ddmin over the event list, accepting a candidate only when the same (oracle, signature) fires
pub fn shrink(prop: &PropDef, run_seed: u64, cfg: &Cfg, evs: &[Ev], want: &Violation, max_candidates: usize) -> (Vec<Ev>, Violation, usize) {
    let mut cur: Vec<Ev> = evs.to_vec();
    let mut cur_v = want.clone();
    let mut tried = 0usize;
    let same = |rep: &RunReport| -> Option<Violation> {
        match &rep.verdict {
            Verdict::Violation(v) if v.oracle == want.oracle && v.signature == want.signature => Some(v.clone()),
            _ => None,
        }
    };
    // cut everything after the failing step first
    if (want.step as usize) < cur.len() && want.step > 0 {
        let cand: Vec<Ev> = cur[..want.step as usize].to_vec();
        tried += 1;
        if let Some(v) = same(&execute_safe(prop, run_seed, cfg, &cand)) {
            cur = cand;
            cur_v = v;
        }
    }
    let mut chunk = (cur.len() / 2).max(1);
    while chunk >= 1 && tried < max_candidates {
        let mut i = 0;
        let mut progress = false;
        while i < cur.len() && tried < max_candidates {
            let end = (i + chunk).min(cur.len());
            let mut cand = Vec::with_capacity(cur.len());
            cand.extend_from_slice(&cur[..i]);
            cand.extend_from_slice(&cur[end..]);
            tried += 1;
            if let Some(v) = same(&execute_safe(prop, run_seed, cfg, &cand)) {
                cur = cand;
                cur_v = v;
                progress = true;
            } else {
                i = end;
            }
        }
        if chunk == 1 && !progress {
            break;
        }
        if chunk > 1 {
            chunk /= 2;
        }
    }
    (cur, cur_v, tried)
}

// ------------------------------------------------------------------------------------------------
// process isolation for workloads that can abort, exhaust memory or hang

/// shared page through which a forked child reports where it is (readable by the parent after the child died)
struct SharedCtx {
    ptr: *mut u8,
}

const SHARED_LEN: usize = 4096;

impl SharedCtx {
    fn new() -> SharedCtx {
        let p = unsafe {
            libc::mmap(
                std::ptr::null_mut(),
                SHARED_LEN,
                libc::PROT_READ | libc::PROT_WRITE,
                libc::MAP_SHARED | libc::MAP_ANONYMOUS,
                -1,
                0,
            )
        };
        SharedCtx { ptr: p as *mut u8 }
    }
    fn read(&self) -> String {
        unsafe {
            let len = (*(self.ptr as *const u32)) as usize;
            let len = len.min(SHARED_LEN - 8);
            let s = std::slice::from_raw_parts(self.ptr.add(8), len);
            String::from_utf8_lossy(s).to_string()
        }
    }
}

impl Drop for SharedCtx {
    fn drop(&mut self) {
        unsafe {
            libc::munmap(self.ptr as *mut libc::c_void, SHARED_LEN);
        }
    }
}

thread_local! {
    static SHARED_PTR: std::cell::Cell<usize> = const { std::cell::Cell::new(0) };
}

/// called by the monitor whenever the context changes; writes it to the shared page when running in a forked child
pub fn publish_context(s: &str) {
    let p = SHARED_PTR.with(|c| c.get());
    if p != 0 {
        unsafe {
            let ptr = p as *mut u8;
            let n = s.len().min(SHARED_LEN - 8);
            std::ptr::copy_nonoverlapping(s.as_ptr(), ptr.add(8), n);
            *(ptr as *mut u32) = n as u32;
        }
    }
}

pub const CAP_SINGLE: usize = 1 << 30;
pub const CAP_TOTAL: usize = 768 << 20;
/// CPU-time budget of one forked run (RLIMIT_CPU of the child, so machine load cannot trigger it)
pub const RUN_CPU_LIMIT_S: u64 = 6;
/// wall-clock backstop for a child that neither finishes nor burns CPU
pub const RUN_TIMEOUT_MS: i32 = 240_000;

fn normalise_ctx(s: &str) -> String {
    // keep the seam and the entry point ("deliver_corrupt/load_incremental"), drop the input-specific rest
    let s = s.split(|c| c == ':' || c == '(').next().unwrap_or(s).trim();
    // properties with fine-grained signatures name the call battery rather than the event kind that preceded it
    let s = if s.contains("/") && !s.starts_with("deliver_corrupt") && !s.starts_with("crash_corrupt") && !s.starts_with("id_fuzz") && !s.starts_with("recv_corrupt") { s.split_once('/').map(|x| x.1).unwrap_or(s) } else { s };
    // digits carry run-specific offsets: collapse them
    let mut out = String::new();
    let mut last = false;
    for ch in s.chars() {
        if ch.is_ascii_digit() {
            if !last {
                out.push('#');
            }
            last = true;
        } else {
            out.push(ch);
            last = false;
        }
    }
    out
}

/// like `execute`, but in a forked child when the property is abort-prone: a child that dies (allocator cap,
/// abort, stack overflow, kill on timeout) becomes a `no_abort` violation instead of taking the worker down
pub fn execute_safe(prop: &PropDef, run_seed: u64, cfg: &Cfg, evs: &[Ev]) -> RunReport {
    if !prop.abort_prone {
        return execute(prop, run_seed, cfg, evs);
    }
    let shared = SharedCtx::new();
    let mut fds = [0i32; 2];
    if unsafe { libc::pipe(fds.as_mut_ptr()) } != 0 {
        return execute(prop, run_seed, cfg, evs);
    }
    let pid = unsafe { libc::fork() };
    if pid == 0 {
        // child
        unsafe { libc::close(fds[0]) };
        // the child's CPU clock starts at zero at fork(); SIGXCPU (default action: kill) at the soft limit
        let lim = libc::rlimit { rlim_cur: RUN_CPU_LIMIT_S, rlim_max: RUN_CPU_LIMIT_S + 1 };
        unsafe { libc::setrlimit(libc::RLIMIT_CPU, &lim) };
        SHARED_PTR.with(|c| c.set(shared.ptr as usize));
        monitor::meter_start(CAP_SINGLE, CAP_TOTAL);
        let rep = execute(prop, run_seed, cfg, evs);
        let (peak, largest) = monitor::meter_stop();
        let mut rep = rep;
        rep.stats.add("meter.runs", 1);
        rep.stats.counters.insert("meter.peak_bytes_max".into(), peak as u64);
        rep.stats.counters.insert("meter.largest_request_max".into(), largest as u64);
        let s = serde_json::to_vec(&rep).unwrap_or_default();
        let mut off = 0;
        while off < s.len() {
            let n = unsafe { libc::write(fds[1], s[off..].as_ptr() as *const libc::c_void, s.len() - off) };
            if n <= 0 {
                break;
            }
            off += n as usize;
        }
        unsafe { libc::_exit(0) };
    }
    unsafe { libc::close(fds[1]) };
    // parent: read until EOF with an overall timeout
    let mut buf: Vec<u8> = Vec::new();
    let t0 = std::time::Instant::now();
    let mut timed_out = false;
    loop {
        let remaining = RUN_TIMEOUT_MS as i64 - t0.elapsed().as_millis() as i64;
        if remaining <= 0 {
            timed_out = true;
            break;
        }
        let mut pfd = libc::pollfd { fd: fds[0], events: libc::POLLIN, revents: 0 };
        let r = unsafe { libc::poll(&mut pfd, 1, remaining as i32) };
        if r == 0 {
            timed_out = true;
            break;
        }
        if r < 0 {
            continue;
        }
        let mut chunk = [0u8; 65536];
        let n = unsafe { libc::read(fds[0], chunk.as_mut_ptr() as *mut libc::c_void, chunk.len()) };
        if n <= 0 {
            break;
        }
        buf.extend_from_slice(&chunk[..n as usize]);
    }
    if timed_out {
        unsafe { libc::kill(pid, libc::SIGKILL) };
    }
    unsafe { libc::close(fds[0]) };
    let mut status: i32 = 0;
    unsafe { libc::waitpid(pid, &mut status, 0) };
    if !timed_out {
        if let Ok(rep) = serde_json::from_slice::<RunReport>(&buf) {
            return rep;
        }
    }
    let ctx = shared.read();
    let cpu_out = libc::WIFSIGNALED(status) && (libc::WTERMSIG(status) == libc::SIGXCPU || libc::WTERMSIG(status) == libc::SIGKILL) && !timed_out;
    let how = if timed_out {
        format!("timeout: no result within {} s of wall-clock time", RUN_TIMEOUT_MS / 1000)
    } else if cpu_out {
        format!("timeout: no result within {RUN_CPU_LIMIT_S} s of CPU time")
    } else if libc::WIFEXITED(status) && libc::WEXITSTATUS(status) == 97 {
        "allocator cap exceeded (single request > 1 GiB or total > 768 MiB)".to_string()
    } else if libc::WIFSIGNALED(status) {
        format!("killed by signal {}", libc::WTERMSIG(status))
    } else {
        format!("exited with status {}", if libc::WIFEXITED(status) { libc::WEXITSTATUS(status) } else { -1 })
    };
    let class = if timed_out || cpu_out {
        "timeout"
    } else if libc::WIFEXITED(status) && libc::WEXITSTATUS(status) == 97 {
        "alloc-cap"
    } else if libc::WIFSIGNALED(status) {
        match libc::WTERMSIG(status) {
            libc::SIGSEGV | libc::SIGBUS => "stack-overflow-or-segv",
            libc::SIGABRT => "abort",
            _ => "signal",
        }
    } else {
        "exit"
    };
    let mut stats = Stats::default();
    stats.bump(&format!("abort.{class}"));
    RunReport {
        verdict: Verdict::Violation(Violation {
            property: prop.id.into(),
            oracle: "no_abort".into(),
            signature: format!("abort:{class}:{}", normalise_ctx(&ctx)),
            step: 0,
            detail: format!("the process running this schedule died: {how}; last context: {ctx}"),
        }),
        stats,
        nontrivial: None,
        steps: 0,
        interleaving: 0,
        state_digest: 0,
        clock_span: 0,
    }
}
