//! One simulated run: property definition, oracle interface, executor loop, shrinking.

use crate::events::*;
use crate::gen::Profile;
use crate::monitor::{self, PanicInfo};
use crate::world::*;
use serde::{Deserialize, Serialize};

pub trait Oracle {
    fn before(&mut self, _w: &mut World, _ev: &Ev) {}
    fn after(&mut self, w: &mut World, ev: &Ev, out: &Outcome) -> Result<(), Violation>;
    fn finish(&mut self, w: &mut World) -> Result<(), Violation>;
    /// Some(digest) when this run counts as a non-trivial case by the property's rule
    fn nontrivial(&self, w: &World) -> Option<u64>;
}

pub struct PropDef {
    pub id: &'static str,
    pub title: &'static str,
    pub level: &'static str,
    pub profile: fn() -> Profile,
    pub oracle: fn(&Cfg) -> Box<dyn Oracle>,
    pub quick_runs: u64,
    pub thorough_runs: u64,
    /// a library panic is itself a violation of this property
    pub panic_is_violation: bool,
    pub rule: &'static str,
    /// custom runner (fault-enumeration style checks); when set, `profile`/`oracle` only build the input
    pub custom: Option<fn(&PropDef, u64, &Cfg, &[Ev]) -> RunReport>,
    pub probes: &'static [&'static str],
    pub fault_kinds: &'static [&'static str],
}

#[derive(Clone, Debug)]
pub enum Verdict {
    Held,
    Violation(Violation),
    /// a library panic in a property that is not about panics: the run is discarded and counted
    DiscardedPanic(PanicInfo),
    HarnessError(String),
}

#[derive(Clone, Debug)]
pub struct RunReport {
    pub verdict: Verdict,
    pub stats: Stats,
    pub nontrivial: Option<u64>,
    pub steps: u64,
    pub interleaving: u64,
    pub state_digest: u64,
    pub clock_span: i64,
}

#[derive(Serialize, Deserialize, Clone, Debug)]
pub struct ReplayFile {
    pub property: String,
    pub engine_version: u32,
    pub run_seed: u64,
    pub cfg: Cfg,
    pub events: Vec<Ev>,
    pub expected: Violation,
    pub minimised: bool,
    pub original_events: usize,
}

pub const ENGINE_VERSION: u32 = 1;

fn install_hooks(cfg: &Cfg) {
    automerge::verif_hooks::install(automerge::verif_hooks::Controller {
        actor_stream: Some(0xAC70_0000_0000_0000 ^ cfg.p1 as u64),
        anonymize_seed: Some(0xA707 ^ cfg.p2 as u64),
        bloom_fp_permille: cfg.bloom_fp_permille,
        bloom_key: ((cfg.p1 as u64) << 32) | cfg.p2 as u64,
        bloom_queries: 0,
        bloom_forced: 0,
    });
}

pub fn execute(prop: &PropDef, run_seed: u64, cfg: &Cfg, evs: &[Ev]) -> RunReport {
    if let Some(custom) = prop.custom {
        return custom(prop, run_seed, cfg, evs);
    }
    execute_with(prop, cfg, evs, (prop.oracle)(cfg))
}

pub fn execute_with(prop: &PropDef, cfg: &Cfg, evs: &[Ev], mut oracle: Box<dyn Oracle>) -> RunReport {
    install_hooks(cfg);
    let mut world = World::new(cfg.clone());
    let res = monitor::guarded(|| -> Result<(), Violation> {
        for ev in evs {
            oracle.before(&mut world, ev);
            let out = world.exec(ev);
            if matches!(out, Outcome::Nop) {
                continue;
            }
            oracle.after(&mut world, ev, &out)?;
            if world.harness_error.is_some() {
                return Ok(());
            }
        }
        monitor::set_context(world.step + 1, "quiesce");
        oracle.finish(&mut world)
    });
    if let Some(c) = automerge::verif_hooks::uninstall() {
        if c.bloom_forced > 0 {
            world.stats.add("fault.bloom_fp_forced", c.bloom_forced);
        }
    }
    let verdict = match res {
        Ok(Ok(())) => match &world.harness_error {
            Some(e) => Verdict::HarnessError(e.clone()),
            None => Verdict::Held,
        },
        Ok(Err(v)) => Verdict::Violation(v),
        Err(p) => {
            if p.is_harness() {
                Verdict::HarnessError(format!("harness panic at {}:{}: {}", p.file, p.line, p.message))
            } else if prop.panic_is_violation {
                Verdict::Violation(Violation {
                    property: prop.id.into(),
                    oracle: "no_panic".into(),
                    signature: p.signature(),
                    step: p.step,
                    detail: format!("{} panicked at {}:{}: {}", p.context, p.file, p.line, p.message),
                })
            } else {
                Verdict::DiscardedPanic(p)
            }
        }
    };
    let nontrivial = match verdict {
        Verdict::Held => {
            let o = &oracle;
            monitor::guarded(|| o.nontrivial(&world)).unwrap_or(None)
        }
        _ => None,
    };
    let mut sd = crate::prng::Fnv::new();
    for r in &world.reps {
        sd.u64(r.known.len() as u64);
        for h in &r.known {
            sd.write(&h[..8]);
        }
    }
    let clock_span = world.reps.iter().map(|r| r.clock - 1_700_000_000).max().unwrap_or(0);
    RunReport {
        verdict,
        stats: world.stats.clone(),
        nontrivial,
        steps: world.step,
        interleaving: world.interleaving.finish(),
        state_digest: sd.finish(),
        clock_span,
    }
}

/// ddmin over the event list, accepting a candidate only when the same (oracle, signature) fires
pub fn shrink(prop: &PropDef, run_seed: u64, cfg: &Cfg, evs: &[Ev], want: &Violation, max_candidates: usize) -> (Vec<Ev>, Violation, usize) {
    let mut cur: Vec<Ev> = evs.to_vec();
    let mut cur_v = want.clone();
    let mut tried = 0usize;
    let same = |rep: &RunReport| -> Option<Violation> {
        match &rep.verdict {
            Verdict::Violation(v) if v.oracle == want.oracle && v.signature == want.signature => Some(v.clone()),
            _ => None,
        }
    };
    // cut everything after the failing step first
    if (want.step as usize) < cur.len() && want.step > 0 {
        let cand: Vec<Ev> = cur[..want.step as usize].to_vec();
        tried += 1;
        if let Some(v) = same(&execute(prop, run_seed, cfg, &cand)) {
            cur = cand;
            cur_v = v;
        }
    }
    let mut chunk = (cur.len() / 2).max(1);
    while chunk >= 1 && tried < max_candidates {
        let mut i = 0;
        let mut progress = false;
        while i < cur.len() && tried < max_candidates {
            let end = (i + chunk).min(cur.len());
            let mut cand = Vec::with_capacity(cur.len());
            cand.extend_from_slice(&cur[..i]);
            cand.extend_from_slice(&cur[end..]);
            tried += 1;
            if let Some(v) = same(&execute(prop, run_seed, cfg, &cand)) {
                cur = cand;
                cur_v = v;
                progress = true;
            } else {
                i = end;
            }
        }
        if chunk == 1 && !progress {
            break;
        }
        if chunk > 1 {
            chunk /= 2;
        }
    }
    (cur, cur_v, tried)
}
