//! xoshiro256** with splitmix64 seeding. Implemented here so the sequence never changes under us.

#[derive(Clone, Debug)]
pub struct Rng {
    s: [u64; 4],
}

pub fn splitmix64(state: &mut u64) -> u64 {
    *state = state.wrapping_add(0x9E37_79B9_7F4A_7C15);
    let mut z = *state;
    z = (z ^ (z >> 30)).wrapping_mul(0xBF58_476D_1CE4_E5B9);
    z = (z ^ (z >> 27)).wrapping_mul(0x94D0_49BB_1331_11EB);
    z ^ (z >> 31)
}

/// run seed for run `idx` of property `salt` under VERIF_SEED `seed`
pub fn derive_seed(seed: u64, salt: u64, idx: u64) -> u64 {
    let mut s = seed ^ salt.wrapping_mul(0xD6E8_FEB8_6659_FD93);
    let a = splitmix64(&mut s);
    let mut t = a ^ idx.wrapping_mul(0xA24B_AED4_963E_E407);
    splitmix64(&mut t)
}

impl Rng {
    pub fn new(seed: u64) -> Rng {
        let mut st = seed;
        let s = [
            splitmix64(&mut st),
            splitmix64(&mut st),
            splitmix64(&mut st),
            splitmix64(&mut st),
        ];
        Rng { s }
    }
    pub fn next_u64(&mut self) -> u64 {
        let result = self.s[1].wrapping_mul(5).rotate_left(7).wrapping_mul(9);
        let t = self.s[1] << 17;
        self.s[2] ^= self.s[0];
        self.s[3] ^= self.s[1];
        self.s[1] ^= self.s[2];
        self.s[0] ^= self.s[3];
        self.s[2] ^= t;
        self.s[3] = self.s[3].rotate_left(45);
        result
    }
    pub fn next_u32(&mut self) -> u32 {
        (self.next_u64() >> 32) as u32
    }
    /// uniform in 0..n (n > 0)
    pub fn below(&mut self, n: u64) -> u64 {
        if n <= 1 {
            return 0;
        }
        // multiply-shift; bias is irrelevant here
        ((self.next_u64() as u128 * n as u128) >> 64) as u64
    }
    pub fn usize(&mut self, n: usize) -> usize {
        self.below(n as u64) as usize
    }
    /// inclusive range
    pub fn range(&mut self, lo: i64, hi: i64) -> i64 {
        if hi <= lo {
            return lo;
        }
        lo + self.below((hi - lo) as u64 + 1) as i64
    }
    pub fn chance(&mut self, permille: u32) -> bool {
        self.below(1000) < permille as u64
    }
    pub fn bool(&mut self) -> bool {
        self.next_u64() & 1 == 1
    }
    pub fn pick<'a, T: ?Sized>(&mut self, xs: &'a [&'a T]) -> &'a T {
        xs[self.usize(xs.len())]
    }
    pub fn pickv<'a, T>(&mut self, xs: &'a [T]) -> &'a T {
        &xs[self.usize(xs.len())]
    }
    /// pick an index according to integer weights (sum > 0)
    pub fn weighted(&mut self, ws: &[u32]) -> usize {
        let total: u64 = ws.iter().map(|w| *w as u64).sum();
        if total == 0 {
            return 0;
        }
        let mut x = self.below(total);
        for (i, w) in ws.iter().enumerate() {
            if x < *w as u64 {
                return i;
            }
            x -= *w as u64;
        }
        ws.len() - 1
    }
    pub fn shuffle<T>(&mut self, xs: &mut [T]) {
        for i in (1..xs.len()).rev() {
            let j = self.usize(i + 1);
            xs.swap(i, j);
        }
    }
    pub fn bytes(&mut self, n: usize) -> Vec<u8> {
        (0..n).map(|_| self.next_u64() as u8).collect()
    }
}

/// 64-bit FNV-1a, used for digests (states, interleavings); not security relevant
#[derive(Clone, Copy)]
pub struct Fnv(pub u64);
impl Default for Fnv {
    fn default() -> Self {
        Fnv(0xcbf2_9ce4_8422_2325)
    }
}
impl Fnv {
    pub fn new() -> Fnv {
        Fnv::default()
    }
    pub fn write(&mut self, bytes: &[u8]) {
        for b in bytes {
            self.0 ^= *b as u64;
            self.0 = self.0.wrapping_mul(0x0000_0100_0000_01B3);
        }
    }
    pub fn u64(&mut self, v: u64) {
        self.write(&v.to_le_bytes());
    }
    pub fn str(&mut self, s: &str) {
        self.u64(s.len() as u64);
        self.write(s.as_bytes());
    }
    pub fn finish(&self) -> u64 {
        // final avalanche
        let mut z = self.0;
        z = (z ^ (z >> 33)).wrapping_mul(0xff51_afd7_ed55_8ccd);
        z = (z ^ (z >> 33)).wrapping_mul(0xc4ce_b9fe_1a85_ec53);
        z ^ (z >> 33)
    }
}
