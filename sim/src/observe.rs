//! R2: observable-state extractor. Reads a real document through the public read API and
//! normalises the result into the same `Tree` type R1 produces.
//!
//! Built from values, `ExId` parts and sorted keys only — never from `Debug` output.

use crate::model::*;
use automerge::{ObjId, ObjType, ReadDoc, Value};
use std::collections::BTreeMap;

pub fn oid_of(id: &ObjId) -> Option<Oid> {
    match id {
        ObjId::Root => None,
        ObjId::Id(c, a, _) => Some(Oid {
            ctr: *c,
            actor: a.to_bytes().to_vec(),
        }),
    }
}

pub fn objref_of(id: &ObjId) -> ObjRef {
    match oid_of(id) {
        None => ObjRef::Root,
        Some(o) => ObjRef::Id(o),
    }
}

pub fn exid_of(o: &ObjRef) -> ObjId {
    match o {
        ObjRef::Root => ObjId::Root,
        ObjRef::Id(o) => ObjId::Id(o.ctr, automerge::ActorId::from(o.actor.as_slice()), 0),
    }
}

pub fn to_hashes(h: &[Hash]) -> Vec<automerge::ChangeHash> {
    h.iter().map(|x| automerge::ChangeHash(*x)).collect()
}

pub fn from_hashes(h: &[automerge::ChangeHash]) -> Vec<Hash> {
    h.iter().map(|x| x.0).collect()
}

#[derive(Debug)]
pub struct ObserveError(pub String);

type R<T> = Result<T, ObserveError>;

fn err<T>(s: String) -> R<T> {
    Err(ObserveError(s))
}

pub struct Observer<'a, D: ReadDoc> {
    pub doc: &'a D,
    pub heads: Option<Vec<automerge::ChangeHash>>,
    pub enc: Enc,
    /// number of read calls made (evidence)
    pub reads: std::cell::Cell<u64>,
}

impl<'a, D: ReadDoc> Observer<'a, D> {
    pub fn new(doc: &'a D, heads: Option<&[Hash]>) -> Self {
        Observer {
            doc,
            heads: heads.map(to_hashes),
            enc: Enc::from_am(doc.text_encoding()),
            reads: std::cell::Cell::new(0),
        }
    }

    fn tick(&self) {
        self.reads.set(self.reads.get() + 1);
    }

    fn get_all_k(&self, obj: &ObjId, k: &str) -> R<Vec<(Value<'_>, ObjId)>> {
        self.tick();
        match &self.heads {
            None => self.doc.get_all(obj, k),
            Some(h) => self.doc.get_all_at(obj, k, h),
        }
        .map_err(|e| ObserveError(format!("get_all({obj},{k:?}) failed: {e}")))
    }

    fn get_all_i(&self, obj: &ObjId, i: usize) -> R<Vec<(Value<'_>, ObjId)>> {
        self.tick();
        match &self.heads {
            None => self.doc.get_all(obj, i),
            Some(h) => self.doc.get_all_at(obj, i, h),
        }
        .map_err(|e| ObserveError(format!("get_all({obj},{i}) failed: {e}")))
    }

    fn length(&self, obj: &ObjId) -> usize {
        self.tick();
        match &self.heads {
            None => self.doc.length(obj),
            Some(h) => self.doc.length_at(obj, h),
        }
    }

    fn reg(&self, vals: Vec<(Value<'_>, ObjId)>, depth: usize, ctx: &str) -> R<Reg> {
        let mut out: Vec<(Oid, Val)> = Vec::with_capacity(vals.len());
        for (v, id) in vals {
            let oid = match oid_of(&id) {
                Some(o) => o,
                None => return err(format!("{ctx}: value carries the root id")),
            };
            let val = match v {
                Value::Scalar(s) => Val::Scalar(Sv::from_am(&s)),
                Value::Object(t) => Val::Obj(Box::new(self.object(&id, OType::from_am(t), depth + 1)?)),
            };
            out.push((oid, val));
        }
        // the API promises winner-last; the normal form is ascending id, and get() is checked against it
        let sorted = out.windows(2).all(|w| w[0].0 < w[1].0);
        if !sorted {
            let ids: Vec<String> = out.iter().map(|(o, _)| o.show()).collect();
            // duplicate or unordered ids are reported as part of the tree so that the oracle sees them
            let mut dedup = out.clone();
            dedup.sort_by(|a, b| a.0.cmp(&b.0));
            if dedup.windows(2).any(|w| w[0].0 == w[1].0) {
                return err(format!("{ctx}: get_all returned duplicate ids {ids:?}"));
            }
            out = dedup;
        }
        Ok(Reg { vals: out })
    }

    pub fn object(&self, obj: &ObjId, typ: OType, depth: usize) -> R<Tree> {
        if depth > 200 {
            return err("R2: nesting too deep".into());
        }
        match typ {
            OType::Map | OType::Table => {
                self.tick();
                let keys: Vec<String> = match &self.heads {
                    None => self.doc.keys(obj).collect(),
                    Some(h) => self.doc.keys_at(obj, h).collect(),
                };
                let mut m = BTreeMap::new();
                for k in keys {
                    let vals = self.get_all_k(obj, &k)?;
                    let r = self.reg(vals, depth, &format!("{obj}/{k:?}"))?;
                    if r.vals.is_empty() {
                        return err(format!("{obj}: keys() lists {k:?} but get_all is empty"));
                    }
                    if m.insert(k.clone(), r).is_some() {
                        return err(format!("{obj}: keys() lists {k:?} twice"));
                    }
                }
                Ok(Tree::Map(typ, m))
            }
            OType::List => {
                let n = self.length(obj);
                let mut l = Vec::with_capacity(n);
                for i in 0..n {
                    let vals = self.get_all_i(obj, i)?;
                    let r = self.reg(vals, depth, &format!("{obj}/{i}"))?;
                    if r.vals.is_empty() {
                        return err(format!("{obj}: length is {n} but get_all({i}) is empty"));
                    }
                    l.push(r);
                }
                Ok(Tree::List(l))
            }
            OType::Text => {
                let n = self.length(obj);
                let mut t = TextTree::default();
                let mut i = 0usize;
                let mut starts = Vec::new();
                while i < n {
                    let vals = self.get_all_i(obj, i)?;
                    let r = self.reg(vals, depth, &format!("{obj}/{i}"))?;
                    let w = match r.winner() {
                        None => return err(format!("{obj}: text length is {n} but get_all({i}) is empty")),
                        Some((_, Val::Scalar(Sv::Str(s)))) => self.enc.width(s),
                        Some(_) => self.enc.width(PLACEHOLDER),
                    };
                    starts.push(i);
                    t.widths.push(w);
                    t.elems.push(r);
                    i += w.max(1);
                }
                self.tick();
                t.text = match &self.heads {
                    None => self.doc.text(obj),
                    Some(h) => self.doc.text_at(obj, h),
                }
                .map_err(|e| ObserveError(format!("text({obj}) failed: {e}")))?;
                self.tick();
                let marks = match &self.heads {
                    None => self.doc.marks(obj),
                    Some(h) => self.doc.marks_at(obj, h),
                }
                .map_err(|e| ObserveError(format!("marks({obj}) failed: {e}")))?;
                t.marks = vec![MarkMap::new(); t.elems.len()];
                for m in marks {
                    let v = Sv::from_am(&m.value);
                    for (e, s) in starts.iter().enumerate() {
                        let end = s + t.widths[e].max(1);
                        let inside = *s >= m.start && end <= m.end;
                        let overlaps = *s < m.end && end > m.start;
                        if overlaps && !inside {
                            return err(format!(
                                "{obj}: mark {}..{} ({}) cuts element {e} spanning {s}..{end}",
                                m.start, m.end, m.name
                            ));
                        }
                        if inside && v != Sv::Null {
                            if let Some(old) = t.marks[e].insert(m.name.to_string(), v.clone()) {
                                if old != v {
                                    return err(format!(
                                        "{obj}: marks() reports two values for {} at element {e}",
                                        m.name
                                    ));
                                }
                            }
                        }
                    }
                }
                Ok(Tree::Text(t))
            }
        }
    }

    pub fn root(&self) -> R<Tree> {
        self.object(&ObjId::Root, OType::Map, 0)
    }
}

pub fn observe<D: ReadDoc>(doc: &D, heads: Option<&[Hash]>) -> R<Tree> {
    Observer::new(doc, heads).root()
}

pub fn observe_obj<D: ReadDoc>(doc: &D, obj: &ObjId, heads: Option<&[Hash]>) -> R<Tree> {
    let t = doc
        .object_type(obj)
        .map_err(|e| ObserveError(format!("object_type({obj}) failed: {e}")))?;
    Observer::new(doc, heads).object(obj, OType::from_am(t), 0)
}

pub fn objtype_to_otype(t: ObjType) -> OType {
    OType::from_am(t)
}
