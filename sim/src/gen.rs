//! Swarm-style generation of run configurations and event lists from one run seed.

use crate::events::*;
use crate::model::Enc;
use crate::prng::Rng;

#[derive(Clone, Debug)]
pub struct Profile {
    pub replicas: (u8, u8),
    pub events: (usize, usize),
    // event family weights
    pub w_edit: u32,
    pub w_commit: u32,
    pub w_empty: u32,
    pub w_rollback: u32,
    pub w_send: u32,
    pub w_deliver: u32,
    pub w_dup: u32,
    pub w_drop: u32,
    pub w_merge: u32,
    pub w_fork: u32,
    pub w_fork_same_actor: u32,
    pub w_fork_at: u32,
    pub w_set_actor: u32,
    pub w_isolate: u32,
    pub w_integrate: u32,
    pub w_save: u32,
    pub w_save_inc: u32,
    pub w_fsync: u32,
    pub w_crash: u32,
    pub w_connect: u32,
    pub w_gen: u32,
    pub w_recv: u32,
    pub w_disconnect: u32,
    pub w_set_ro: u32,
    pub w_probe: u32,
    pub w_deliver_corrupt: u32,
    pub w_recv_corrupt: u32,
    pub w_crash_corrupt: u32,
    pub w_id_fuzz: u32,
    /// mutation classes in use and permille of mutants whose checksum is recomputed
    pub mut_classes: Vec<crate::mutate::MutClass>,
    pub fix_checksum_permille: u32,
    // edit op weights
    pub e_put: u32,
    pub e_put_obj: u32,
    pub e_insert: u32,
    pub e_insert_obj: u32,
    pub e_delete: u32,
    pub e_inc: u32,
    pub e_splice_text: u32,
    pub e_splice: u32,
    pub e_mark: u32,
    pub e_unmark: u32,
    pub e_block: u32,
    pub e_update_text: u32,
    /// permille of edits whose object is drawn from the whole pool regardless of kind/presence
    pub confused_permille: u32,
    pub unicode: bool,
    /// wire encodings allowed for gossip
    pub wire: Vec<WireEnc>,
    pub subset_sends: bool,
    /// crash kinds allowed
    pub crash_clean: u32,
    pub crash_lose_unsynced: u32,
    pub crash_torn: u32,
    pub crash_stale: u32,
    pub keep_actor_permille: u32,
    pub partial_ignore_permille: u32,
    pub migrate_permille: u32,
    pub unverified_permille: u32,
    /// after this fraction (permille) of the run, connect every pair with a sync session
    pub connect_all_at_permille: Option<u32>,
    /// which small decoders IdFuzz exercises (see World::id_fuzz)
    pub id_fuzz_kinds: Vec<u8>,
    /// generate ObjType::Table objects (legacy type; quarantined: see known findings)
    pub tables: bool,
    /// permille of runs in which the quarantined features (counters in sequences, increments on conflicted
    /// registers) are switched ON so that the area of the corresponding known findings stays watched
    pub quarantine_on_permille: u32,
    /// share of runs with large splices / deletes (long texts, long deleted chains, multi-slab columns)
    pub big_permille: u32,
    /// allow the per-run swarm to zero out families
    pub swarm: bool,
    /// permille of runs that start with a scripted prologue leaving a *conflicted text element whose values differ in
    /// width* (two replicas put on the same element of a shared text concurrently, then merge) - a prior state the
    /// random part of a short run almost never builds by itself (measured: 1 splice in 53 000 met one)
    pub text_conflict_prologue_permille: u32,
    /// permille of runs that start with a *ladder*: replicas 0 and 1 alternately commit and merge each other's work for
    /// 26..44 rounds, so that the change graph is deep, every change has two parents, and the number of paths through it is
    /// exponential in its depth while the number of changes stays below a hundred (anything that walks paths instead of
    /// nodes - sync's hashes-to-send, clocks, topological sorts - meets its worst case); other replicas start without it
    pub ladder_prologue_permille: u32,
    /// long single-actor chains (to reach clock caches / slab splits)
    pub long_chain_permille: u32,
    pub bloom_fp: Vec<u32>,
    pub encs: Vec<Enc>,
    pub counters_in_seqs: bool,
    pub inc_on_conflicted_counters: bool,
    pub max_keys: u8,
}

impl Default for Profile {
    fn default() -> Self {
        Profile {
            replicas: (2, 4),
            events: (10, 120),
            w_edit: 50,
            w_commit: 12,
            w_empty: 1,
            w_rollback: 1,
            w_send: 8,
            w_deliver: 10,
            w_dup: 1,
            w_drop: 1,
            w_merge: 3,
            w_fork: 1,
            w_fork_same_actor: 0,
            w_fork_at: 0,
            w_set_actor: 0,
            w_isolate: 0,
            w_integrate: 0,
            w_save: 0,
            w_save_inc: 0,
            w_fsync: 0,
            w_crash: 0,
            w_connect: 0,
            w_gen: 0,
            w_recv: 0,
            w_disconnect: 0,
            w_set_ro: 0,
            w_probe: 0,
            w_deliver_corrupt: 0,
            w_recv_corrupt: 0,
            w_crash_corrupt: 0,
            w_id_fuzz: 0,
            mut_classes: crate::mutate::ALL_CLASSES.to_vec(),
            fix_checksum_permille: 700,
            e_put: 20,
            e_put_obj: 8,
            e_insert: 14,
            e_insert_obj: 3,
            e_delete: 10,
            e_inc: 6,
            e_splice_text: 14,
            e_splice: 3,
            e_mark: 5,
            e_unmark: 2,
            e_block: 0,
            e_update_text: 0,
            confused_permille: 0,
            unicode: true,
            wire: vec![WireEnc::Raw, WireEnc::Compressed, WireEnc::Reencode],
            subset_sends: false,
            crash_clean: 1,
            crash_lose_unsynced: 0,
            crash_torn: 0,
            crash_stale: 0,
            keep_actor_permille: 0,
            partial_ignore_permille: 0,
            migrate_permille: 0,
            unverified_permille: 100,
            connect_all_at_permille: None,
            id_fuzz_kinds: (0..13).collect(),
            tables: false,
            quarantine_on_permille: 120,
            big_permille: 80,
            swarm: true,
            text_conflict_prologue_permille: 0,
            ladder_prologue_permille: 0,
            long_chain_permille: 30,
            bloom_fp: vec![0],
            encs: vec![Enc::CodePoint, Enc::Utf8, Enc::Utf16, Enc::Grapheme],
            counters_in_seqs: false,
            inc_on_conflicted_counters: false,
            max_keys: 6,
        }
    }
}

pub const GRAPHEMES: [&str; 16] = [
    "a", "b", "c", " ", "x", "y", "é", "ß", "😀", "👨\u{200d}👩\u{200d}👧", "e\u{301}", "🇩🇪", "中", "\n", "z", "q",
];
const ASCII: [&str; 8] = ["a", "b", "c", " ", "x", "y", "z", "q"];

pub fn gen_text(rng: &mut Rng, unicode: bool, max: usize) -> String {
    let n = 1 + rng.usize(max.max(1));
    let mut s = String::new();
    for _ in 0..n {
        if unicode && rng.chance(350) {
            s.push_str(rng.pick(&GRAPHEMES));
        } else {
            s.push_str(rng.pick(&ASCII));
        }
    }
    s
}

pub fn gen_scalar(rng: &mut Rng, unicode: bool) -> SvE {
    match rng.weighted(&[30, 20, 8, 10, 5, 4, 4, 3, 3]) {
        0 => SvE::Int(rng.range(0, 3)),
        1 => SvE::Str(if rng.chance(600) {
            rng.pick(&["s", "t", "hello"]).to_string()
        } else {
            gen_text(rng, unicode, 5)
        }),
        2 => SvE::Bool(rng.bool()),
        3 => SvE::Counter(rng.range(-2, 10)),
        4 => SvE::Null,
        5 => SvE::F64(match rng.below(4) {
            0 => 0.0f64.to_bits(),
            1 => 1.5f64.to_bits(),
            2 => (-3.25f64).to_bits(),
            _ => (rng.range(-1000, 1000) as f64 / 8.0).to_bits(),
        }),
        6 => SvE::Uint(match rng.below(3) {
            0 => 0,
            1 => u64::MAX,
            _ => rng.below(1000),
        }),
        7 => SvE::Ts(rng.range(-5, 2_000_000_000_000)),
        _ => {
            let n = rng.usize(5);
            SvE::Bytes(rng.bytes(n))
        }
    }
}

fn sel(rng: &mut Rng, confused: bool) -> ObjSel {
    if confused {
        ObjSel::Any(rng.next_u32())
    } else if rng.chance(250) {
        ObjSel::Root
    } else {
        ObjSel::Known(rng.next_u32())
    }
}

pub fn gen_edit(rng: &mut Rng, p: &Profile, w: &[u32], big: bool) -> EditOp {
    let confused = rng.chance(p.confused_permille);
    let o = sel(rng, confused);
    // non-root selection for sequence-typed ops
    let os = if confused { o } else { ObjSel::Known(rng.next_u32()) };
    match rng.weighted(w) {
        0 => EditOp::Put {
            obj: o,
            key: rng.next_u32(),
            val: gen_scalar(rng, p.unicode),
        },
        1 => EditOp::PutObj {
            obj: o,
            key: rng.next_u32(),
            ty: if p.tables && rng.chance(120) { OT::Table } else { *rng.pickv(&[OT::Map, OT::List, OT::Text, OT::Text, OT::List]) },
        },
        2 => EditOp::Insert {
            obj: os,
            idx: rng.next_u32(),
            val: gen_scalar(rng, p.unicode),
        },
        3 => EditOp::InsertObj {
            obj: os,
            idx: rng.next_u32(),
            ty: *rng.pickv(&[OT::Map, OT::List, OT::Text]),
        },
        4 => EditOp::Delete {
            obj: if rng.bool() { o } else { os },
            key: rng.next_u32(),
        },
        5 => EditOp::Inc {
            obj: o,
            key: rng.next_u32(),
            by: rng.range(-3, 5),
        },
        6 => EditOp::SpliceText {
            obj: os,
            pos: rng.next_u32(),
            del: if big && rng.chance(300) { rng.below(56) as u32 } else if rng.chance(400) { rng.below(4) as u32 } else { 0 },
            text: if rng.chance(150) { String::new() } else { gen_text(rng, p.unicode, if big { 48 } else { 6 }) },
        },
        7 => EditOp::Splice {
            obj: os,
            pos: rng.next_u32(),
            del: if big && rng.chance(300) { rng.below(40) as u32 } else if rng.chance(400) { rng.below(3) as u32 } else { 0 },
            vals: (0..rng.usize(if big { 40 } else { 4 })).map(|_| gen_scalar(rng, p.unicode)).collect(),
        },
        8 => EditOp::Mark {
            obj: os,
            start: rng.next_u32(),
            len: rng.next_u32(),
            name: rng.below(3) as u8,
            val: match rng.below(4) {
                0 => SvE::Bool(true),
                1 => SvE::Str(rng.pick(&["u1", "u2"]).to_string()),
                2 => SvE::Int(rng.range(1, 3)),
                _ => SvE::Bool(true),
            },
            expand: rng.below(4) as u8,
        },
        9 => EditOp::Unmark {
            obj: os,
            start: rng.next_u32(),
            len: rng.next_u32(),
            name: rng.below(3) as u8,
            expand: rng.below(4) as u8,
        },
        10 => match rng.below(3) {
            0 => EditOp::SplitBlock { obj: os, idx: rng.next_u32() },
            1 => EditOp::JoinBlock { obj: os, idx: rng.next_u32() },
            _ => EditOp::ReplaceBlock { obj: os, idx: rng.next_u32() },
        },
        _ => EditOp::UpdateText {
            obj: os,
            text: gen_text(rng, p.unicode, if big { 70 } else { 10 }),
        },
    }
}

fn swarm_scale(rng: &mut Rng, w: u32, on: bool) -> u32 {
    if !on || w == 0 {
        return w;
    }
    match rng.below(10) {
        0 | 1 => 0,
        2 => w * 4,
        3 => w * 2,
        4 => (w / 2).max(1),
        _ => w,
    }
}

pub fn gen_mutation(rng: &mut Rng, p: &Profile) -> crate::mutate::Mutation {
    crate::mutate::Mutation {
        class: *rng.pickv(&p.mut_classes),
        seed: rng.next_u32(),
        fix_checksum: rng.chance(p.fix_checksum_permille),
    }
}

pub fn gen_actor(rng: &mut Rng) -> Vec<u8> {
    // varying lengths and leading bytes so that the sorted actor table order varies
    let n = *rng.pickv(&[1usize, 2, 4, 16, 16]);
    rng.bytes(n)
}

pub fn gen_run(seed: u64, p: &Profile) -> (Cfg, Vec<Ev>) {
    let mut rng = Rng::new(seed);
    let replicas = rng.range(p.replicas.0 as i64, p.replicas.1 as i64) as u8;
    let mut actors: Vec<Vec<u8>> = Vec::new();
    while actors.len() < replicas as usize {
        let a = gen_actor(&mut rng);
        if !actors.contains(&a) {
            actors.push(a);
        }
    }
    let mut spare = Vec::new();
    while spare.len() < 8 {
        let a = gen_actor(&mut rng);
        if !actors.contains(&a) && !spare.contains(&a) && a.len() > 1 {
            spare.push(a);
        }
    }
    let long_chain = rng.chance(p.long_chain_permille);
    let n_events = if long_chain {
        rng.range(p.events.1 as i64, (p.events.1 * 3) as i64) as usize
    } else {
        // bias towards short runs
        let a = rng.range(p.events.0 as i64, p.events.1 as i64);
        let b = rng.range(p.events.0 as i64, p.events.1 as i64);
        a.min(b) as usize
    };
    let quarantine_on = rng.chance(p.quarantine_on_permille);
    let big = rng.chance(p.big_permille);
    let cfg = Cfg {
        replicas,
        enc: *rng.pickv(&p.encs),
        actors,
        spare_actors: spare,
        keys: 1 + rng.below(p.max_keys.max(1) as u64) as u8,
        counters_in_seqs: p.counters_in_seqs || quarantine_on,
        inc_on_conflicted_counters: p.inc_on_conflicted_counters || quarantine_on,
        bloom_fp_permille: *rng.pickv(&p.bloom_fp),
        quiesce_paths: (0..8).map(|_| rng.below(7) as u8).collect(),
        p1: rng.next_u32(),
        p2: rng.next_u32(),
    };
    let sw = p.swarm;
    let fam: Vec<u32> = vec![
        p.w_edit.max(1),
        if long_chain { p.w_commit * 3 } else { p.w_commit },
        swarm_scale(&mut rng, p.w_empty, sw),
        swarm_scale(&mut rng, p.w_rollback, sw),
        p.w_send,
        p.w_deliver,
        swarm_scale(&mut rng, p.w_dup, sw),
        swarm_scale(&mut rng, p.w_drop, sw),
        swarm_scale(&mut rng, p.w_merge, sw),
        swarm_scale(&mut rng, p.w_fork, sw),
        swarm_scale(&mut rng, p.w_fork_same_actor, sw),
        swarm_scale(&mut rng, p.w_fork_at, sw),
        swarm_scale(&mut rng, p.w_set_actor, sw),
        swarm_scale(&mut rng, p.w_isolate, sw),
        p.w_integrate,
        swarm_scale(&mut rng, p.w_save, sw),
        swarm_scale(&mut rng, p.w_save_inc, sw),
        swarm_scale(&mut rng, p.w_fsync, sw),
        swarm_scale(&mut rng, p.w_crash, sw),
        p.w_connect,
        p.w_gen,
        p.w_recv,
        swarm_scale(&mut rng, p.w_disconnect, sw),
        swarm_scale(&mut rng, p.w_set_ro, sw),
        p.w_probe,
        p.w_deliver_corrupt,
        p.w_recv_corrupt,
        p.w_crash_corrupt,
        p.w_id_fuzz,
    ];
    let mut ew: Vec<u32> = vec![
        p.e_put,
        swarm_scale(&mut rng, p.e_put_obj, sw).max(if p.e_put_obj > 0 { 1 } else { 0 }),
        swarm_scale(&mut rng, p.e_insert, sw),
        swarm_scale(&mut rng, p.e_insert_obj, sw),
        swarm_scale(&mut rng, p.e_delete, sw),
        swarm_scale(&mut rng, p.e_inc, sw),
        swarm_scale(&mut rng, p.e_splice_text, sw),
        swarm_scale(&mut rng, p.e_splice, sw),
        swarm_scale(&mut rng, p.e_mark, sw),
        swarm_scale(&mut rng, p.e_unmark, sw),
        swarm_scale(&mut rng, p.e_block, sw),
        swarm_scale(&mut rng, p.e_update_text, sw),
    ];
    if ew.iter().all(|w| *w == 0) {
        ew[0] = 1;
    }
    let crash_w = [p.crash_clean, p.crash_lose_unsynced, p.crash_torn, p.crash_stale];
    let rmax = 8u64;
    let mut evs = Vec::with_capacity(n_events + 4);
    // seed structure early so that sequence-typed ops find targets
    let warm = rng.usize(3);
    for _ in 0..warm {
        evs.push(Ev::Edit {
            r: rng.below(rmax) as u8,
            op: EditOp::PutObj {
                obj: ObjSel::Root,
                key: rng.next_u32(),
                ty: *rng.pickv(&[OT::Text, OT::List, OT::Map]),
            },
        });
    }
    // in long-chain runs most activity is on one replica
    let hot = rng.below(rmax) as u8;
    let connect_at = p.connect_all_at_permille.map(|pm| n_events * pm as usize / 1000);
    for ei in 0..n_events {
        if Some(ei) == connect_at {
            for a in 0..replicas {
                for b in (a + 1)..replicas {
                    // a chain is always connected; further pairs sometimes
                    if b == a + 1 || rng.chance(400) {
                        evs.push(Ev::Connect {
                            a,
                            b,
                            restore_a: false,
                            restore_b: false,
                            ro_a: p.w_set_ro > 0 && rng.chance(300),
                            ro_b: p.w_set_ro > 0 && rng.chance(300),
                        });
                    }
                }
            }
        }
        let r = if long_chain && rng.chance(700) { hot } else { rng.below(rmax) as u8 };
        let r2 = rng.below(rmax) as u8;
        let ev = match rng.weighted(&fam) {
            0 => Ev::Edit { r, op: gen_edit(&mut rng, p, &ew, big) },
            1 => Ev::Commit {
                r,
                msg: if rng.chance(200) { Some(gen_text(&mut rng, p.unicode, 4)) } else { None },
                dt: match rng.below(10) {
                    0 => -rng.range(0, 100_000),
                    1 => rng.range(1_000_000, 4_000_000_000),
                    _ => rng.range(0, 20),
                },
            },
            2 => Ev::EmptyChange { r, dt: rng.range(0, 5) },
            3 => Ev::Rollback { r },
            4 => Ev::Send {
                from: r,
                to: r2,
                what: if p.subset_sends && rng.chance(500) {
                    SendWhat::Subset(rng.next_u32())
                } else if rng.chance(600) {
                    SendWhat::SinceLast
                } else {
                    SendWhat::All
                },
                enc: *rng.pickv(&p.wire),
                batch: rng.bool(),
            },
            5 => Ev::Deliver {
                from: r2,
                to: r,
                pick: if rng.chance(700) { 0 } else { rng.next_u32() },
            },
            6 => Ev::DupPkt { from: r2, to: r, pick: rng.next_u32() },
            7 => Ev::DropPkt { from: r2, to: r, pick: rng.next_u32() },
            8 => Ev::Merge { from: r2, to: r },
            9 => Ev::Fork { r, same_actor: false },
            10 => Ev::Fork { r, same_actor: true },
            11 => Ev::ForkAt { r, heads: rng.next_u32() },
            12 => Ev::SetActor { r, actor: rng.below(8) as u8 },
            13 => Ev::Isolate { r, heads: rng.next_u32() },
            14 => Ev::Integrate { r },
            15 => Ev::Save {
                r,
                deflate: rng.bool(),
                orphans: rng.bool(),
            },
            16 => Ev::SaveInc { r },
            17 => Ev::Fsync { r },
            18 => Ev::Crash {
                r,
                kind: match rng.weighted(&crash_w) {
                    0 => CrashKind::Clean,
                    1 => CrashKind::LoseUnsynced,
                    2 => CrashKind::Torn(rng.next_u32()),
                    _ => CrashKind::Stale(rng.next_u32()),
                },
                opts: LoadOpts {
                    partial_ignore: rng.chance(p.partial_ignore_permille),
                    unverified_heads: rng.chance(p.unverified_permille),
                    migrate_strings: rng.chance(p.migrate_permille),
                    keep_actor: rng.chance(p.keep_actor_permille),
                },
            },
            19 => Ev::Connect {
                a: r,
                b: r2,
                restore_a: rng.bool(),
                restore_b: rng.bool(),
                ro_a: p.w_set_ro > 0 && rng.chance(250),
                ro_b: p.w_set_ro > 0 && rng.chance(250),
            },
            20 => Ev::Gen { from: r, to: r2 },
            21 => Ev::Recv { from: r2, to: r },
            22 => Ev::Disconnect {
                a: r,
                b: r2,
                persist: rng.bool(),
            },
            23 => Ev::SetReadOnly {
                r,
                peer: r2,
                ro: rng.bool(),
            },
            24 => Ev::Probe { r, arg: rng.next_u32() },
            25 => Ev::DeliverCorrupt { from: r2, to: r, pick: rng.next_u32(), m: gen_mutation(&mut rng, p) },
            26 => Ev::RecvCorrupt { from: r2, to: r, m: gen_mutation(&mut rng, p) },
            27 => Ev::CrashCorrupt {
                r,
                m: gen_mutation(&mut rng, p),
                opts: LoadOpts {
                    partial_ignore: rng.chance(p.partial_ignore_permille),
                    unverified_heads: rng.chance(p.unverified_permille * 3),
                    migrate_strings: rng.chance(p.migrate_permille),
                    keep_actor: false,
                },
            },
            _ => Ev::IdFuzz { r, what: *rng.pickv(&p.id_fuzz_kinds), sel: rng.next_u32(), m: gen_mutation(&mut rng, p) },
        };
        evs.push(ev);
    }
    let mut cfg = cfg;
    let mut evs = evs;
    // decided from a stream of its own, so that switching the prologue on for a property leaves its other runs as they were
    let mut prng = Rng::new(seed ^ 0x7E47_C0F1_1CE5_0001);
    if prng.chance(p.text_conflict_prologue_permille) && replicas < 8 {
        // text-rich mode (World::resolve): p1 % 4 == 1 routes every second put to a text object, hot index p2 % 3
        cfg.p1 = cfg.p1 - cfg.p1 % 4 + 1;
        let fork = replicas; // index of the replica the Fork below creates
        // key with (key >> 9) % 2 == 0 (goes to a text object) and key % 3 != 0 (hot index)
        let key = |rng: &mut Rng| loop {
            let k = rng.next_u32();
            if (k >> 9) % 2 == 0 && k % 3 != 0 {
                break k;
            }
        };
        let vals = [SvE::Str("hello".into()), SvE::Int(3), SvE::Str("é".into()), SvE::Str("xy".into()), SvE::Str("👨‍👩‍👧".into())];
        let (v1, v2) = (prng.usize(vals.len()), prng.usize(vals.len()));
        let pro = vec![
            Ev::Edit { r: 0, op: EditOp::PutObj { obj: ObjSel::Root, key: prng.next_u32(), ty: OT::Text } },
            Ev::Edit { r: 0, op: EditOp::SpliceText { obj: ObjSel::Known(0), pos: 1, del: 0, text: "abcdef".into() } },
            Ev::Commit { r: 0, msg: None, dt: 1 },
            Ev::Fork { r: 0, same_actor: false },
            Ev::Edit { r: 0, op: EditOp::Put { obj: ObjSel::Known(0), key: key(&mut prng), val: vals[v1].clone() } },
            Ev::Edit { r: fork, op: EditOp::Put { obj: ObjSel::Known(0), key: key(&mut prng), val: vals[v2].clone() } },
            Ev::Commit { r: 0, msg: None, dt: 1 },
            Ev::Commit { r: fork, msg: None, dt: 1 },
            Ev::Merge { from: fork, to: 0 },
        ];
        let tail = std::mem::take(&mut evs);
        evs = pro;
        if prng.bool() {
            evs.push(Ev::Merge { from: 0, to: fork });
        }
        evs.extend(tail);
    }
    if prng.chance(p.ladder_prologue_permille) && replicas >= 2 {
        let rounds = 26 + prng.usize(19);
        let mut pro = Vec::with_capacity(rounds * 6);
        for i in 0..rounds {
            for (me, other) in [(0u8, 1u8), (1u8, 0u8)] {
                pro.push(Ev::Edit { r: me, op: EditOp::Put { obj: ObjSel::Root, key: (i as u32) << 10 | 1 << 9 | 1, val: SvE::Int(i as i64) } });
                pro.push(Ev::Commit { r: me, msg: None, dt: 1 });
                pro.push(Ev::Merge { from: me, to: other });
            }
        }
        let tail = std::mem::take(&mut evs);
        evs = pro;
        evs.extend(tail);
    }
    (cfg, evs)
}
