//! R4: an independent patch applier. Applies `Patch { obj, path, action }` to a plain materialised view keyed by
//! object id (values, conflict flags, counters, text with per-unit marks). Own code: does not use
//! `hydrate::Value::apply_patches`.

use crate::model::*;
use crate::observe::oid_of;
use automerge::{ObjId, Patch, PatchAction, Prop, Value};
use std::collections::BTreeMap;

#[derive(Clone, Debug, PartialEq)]
pub enum VVal {
    Scalar(Sv),
    Obj(String),
}

#[derive(Clone, Debug, PartialEq)]
pub struct Slot {
    pub val: VVal,
    pub conflict: bool,
}

/// one element of a text view: a piece of text (one character/grapheme, or a placeholder for an embedded value)
#[derive(Clone, Debug, PartialEq)]
pub struct Piece {
    pub s: String,
    pub width: usize,
    pub marks: MarkMap,
    /// an embedded non-string value (block marker, scalar) sits here
    pub embedded: Option<Slot>,
}

#[derive(Clone, Debug, PartialEq)]
pub enum VNode {
    Map(BTreeMap<String, Slot>),
    List(Vec<Slot>),
    Text(Vec<Piece>),
}

#[derive(Clone, Debug, Default)]
pub struct View {
    pub objs: BTreeMap<String, VNode>,
    pub enc: Option<Enc>,
    pub ignored_unknown: u64,
}

pub fn key_of(id: &ObjId) -> String {
    match oid_of(id) {
        None => "_root".into(),
        Some(o) => o.show(),
    }
}

fn split_units(s: &str, enc: Enc) -> Vec<(String, usize)> {
    match enc {
        Enc::Grapheme => unicode_segmentation::UnicodeSegmentation::graphemes(s, true).map(|g| (g.to_string(), 1)).collect(),
        _ => s.chars().map(|c| (c.to_string(), enc.width(&c.to_string()))).collect(),
    }
}

impl View {
    pub fn new(enc: Enc) -> View {
        let mut objs = BTreeMap::new();
        objs.insert("_root".to_string(), VNode::Map(BTreeMap::new()));
        View { objs, enc: Some(enc), ignored_unknown: 0 }
    }

    /// is the object reachable from the root through the current slots?
    pub fn reachable(&self, key: &str) -> bool {
        if key == "_root" {
            return true;
        }
        let mut stack = vec!["_root".to_string()];
        let mut seen = std::collections::BTreeSet::new();
        while let Some(k) = stack.pop() {
            if !seen.insert(k.clone()) {
                continue;
            }
            let kids: Vec<&String> = match self.objs.get(&k) {
                Some(VNode::Map(m)) => m.values().filter_map(|s| if let VVal::Obj(o) = &s.val { Some(o) } else { None }).collect(),
                Some(VNode::List(l)) => l.iter().filter_map(|s| if let VVal::Obj(o) = &s.val { Some(o) } else { None }).collect(),
                Some(VNode::Text(t)) => t.iter().filter_map(|p| p.embedded.as_ref()).filter_map(|s| if let VVal::Obj(o) = &s.val { Some(o) } else { None }).collect(),
                None => vec![],
            };
            for o in kids {
                if o == key {
                    return true;
                }
                stack.push(o.clone());
            }
        }
        false
    }

    fn enc(&self) -> Enc {
        self.enc.unwrap_or(Enc::CodePoint)
    }

    fn slot_of(&mut self, v: &Value<'_>, id: &ObjId, conflict: bool) -> Slot {
        match v {
            Value::Scalar(s) => Slot { val: VVal::Scalar(Sv::from_am(s)), conflict },
            Value::Object(t) => {
                let k = key_of(id);
                // a put of an object always introduces a fresh, empty object of that type
                let node = match OType::from_am(*t) {
                    OType::Map | OType::Table => VNode::Map(BTreeMap::new()),
                    OType::List => VNode::List(Vec::new()),
                    OType::Text => VNode::Text(Vec::new()),
                };
                self.objs.insert(k.clone(), node);
                Slot { val: VVal::Obj(k), conflict }
            }
        }
    }

    /// index (in encoding units) -> position in the piece vector; the index must fall on a piece boundary
    fn piece_at(pieces: &[Piece], index: usize) -> Result<usize, String> {
        let mut acc = 0;
        for (i, p) in pieces.iter().enumerate() {
            if acc == index {
                return Ok(i);
            }
            if acc > index {
                return Err(format!("index {index} falls inside a text element (boundary at {acc})"));
            }
            acc += p.width;
        }
        if acc == index {
            Ok(pieces.len())
        } else {
            Err(format!("index {index} is beyond the text length {acc}"))
        }
    }

    pub fn apply(&mut self, p: &Patch) -> Result<(), String> {
        let k = key_of(&p.obj);
        let enc = self.enc();
        if !self.objs.contains_key(&k) {
            // an object the view was never told about (e.g. the losing value of a conflict): nothing to update; when
            // it becomes visible the document has to announce it in full, which the final comparison checks
            self.ignored_unknown += 1;
            return Ok(());
        }
        if !self.reachable(&k) {
            // the object was overwritten or deleted: its path from the root no longer resolves, an applier that
            // follows `path` cannot apply this patch; the object is not part of the visible state either
            self.ignored_unknown += 1;
            return Ok(());
        }
        match &p.action {
            PatchAction::PutMap { key, value, conflict } => {
                let slot = self.slot_of(&value.0, &value.1, *conflict);
                match self.objs.get_mut(&k) {
                    Some(VNode::Map(m)) => {
                        m.insert(key.clone(), slot);
                        Ok(())
                    }
                    _ => Err(format!("PutMap on non-map {k}")),
                }
            }
            PatchAction::PutSeq { index, value, conflict } => {
                let slot = self.slot_of(&value.0, &value.1, *conflict);
                match self.objs.get_mut(&k) {
                    Some(VNode::List(l)) => {
                        if *index >= l.len() {
                            return Err(format!("PutSeq index {index} out of range (len {}) in {k}", l.len()));
                        }
                        l[*index] = slot;
                        Ok(())
                    }
                    Some(VNode::Text(t)) => {
                        let i = View::piece_at(t, *index)?;
                        if i >= t.len() {
                            return Err(format!("PutSeq index {index} at the end of text {k}"));
                        }
                        let marks = t[i].marks.clone();
                        t[i] = match &slot.val {
                            VVal::Scalar(Sv::Str(s)) => Piece { s: s.clone(), width: enc.width(s), marks, embedded: None },
                            _ => Piece { s: PLACEHOLDER.into(), width: enc.width(PLACEHOLDER), marks, embedded: Some(slot) },
                        };
                        Ok(())
                    }
                    _ => Err(format!("PutSeq on non-sequence {k}")),
                }
            }
            PatchAction::Insert { index, values } => {
                let mut slots = Vec::new();
                for (v, id, conflict) in values.iter() {
                    slots.push(self.slot_of(v, id, *conflict));
                }
                match self.objs.get_mut(&k) {
                    Some(VNode::List(l)) => {
                        if *index > l.len() {
                            return Err(format!("Insert index {index} out of range (len {}) in {k}", l.len()));
                        }
                        for (j, s) in slots.into_iter().enumerate() {
                            l.insert(index + j, s);
                        }
                        Ok(())
                    }
                    Some(VNode::Text(t)) => {
                        let i = View::piece_at(t, *index)?;
                        for (j, s) in slots.into_iter().enumerate() {
                            let piece = match &s.val {
                                VVal::Scalar(Sv::Str(x)) => Piece { s: x.clone(), width: enc.width(x), marks: MarkMap::new(), embedded: None },
                                _ => Piece { s: PLACEHOLDER.into(), width: enc.width(PLACEHOLDER), marks: MarkMap::new(), embedded: Some(s) },
                            };
                            t.insert(i + j, piece);
                        }
                        Ok(())
                    }
                    _ => Err(format!("Insert on non-sequence {k}")),
                }
            }
            PatchAction::SpliceText { index, value, marks } => {
                let s = value.make_string();
                let mm: MarkMap = marks.as_ref().map(|m| m.iter().map(|(n, v)| (n.to_string(), Sv::from_am(v))).filter(|(_, v)| *v != Sv::Null).collect()).unwrap_or_default();
                match self.objs.get_mut(&k) {
                    Some(VNode::Text(t)) => {
                        let i = View::piece_at(t, *index)?;
                        for (j, (u, w)) in split_units(&s, enc).into_iter().enumerate() {
                            t.insert(i + j, Piece { s: u, width: w, marks: mm.clone(), embedded: None });
                        }
                        Ok(())
                    }
                    _ => Err(format!("SpliceText on non-text {k}")),
                }
            }
            PatchAction::Increment { prop, value } => {
                let on_text = matches!(self.objs.get(&k), Some(VNode::Text(_)));
                let slot: Option<&mut Slot> = match (self.objs.get_mut(&k), prop) {
                    (Some(VNode::Map(m)), Prop::Map(key)) => m.get_mut(key),
                    (Some(VNode::List(l)), Prop::Seq(i)) => l.get_mut(*i),
                    (Some(VNode::Text(t)), Prop::Seq(i)) => {
                        let pi = View::piece_at(t, *i)?;
                        t.get_mut(pi).and_then(|p| p.embedded.as_mut())
                    }
                    _ => None,
                };
                match slot {
                    Some(Slot { val: VVal::Scalar(Sv::Counter(c)), .. }) => {
                        *c = c.wrapping_add(*value);
                        Ok(())
                    }
                    Some(other) => Err(format!("Increment of {prop} in {k} aimed at a non-counter: {:?}", other.val)),
                    // a counter inside a text is a placeholder character to the view (see the comparison): nothing to add to
                    None if on_text => Ok(()),
                    None => Err(format!("Increment of missing {prop} in {k}")),
                }
            }
            PatchAction::Conflict { prop } => {
                // a text view holds a string, marks and embedded objects; it has no per-element conflict flag to set
                if let (Some(VNode::Text(_)), Prop::Seq(_)) = (self.objs.get(&k), prop) {
                    return Ok(());
                }
                let slot: Option<&mut Slot> = match (self.objs.get_mut(&k), prop) {
                    (Some(VNode::Map(m)), Prop::Map(key)) => m.get_mut(key),
                    (Some(VNode::List(l)), Prop::Seq(i)) => l.get_mut(*i),
                    _ => None,
                };
                match slot {
                    Some(s) => {
                        s.conflict = true;
                        Ok(())
                    }
                    None => Err(format!("Conflict flag for missing {prop} in {k}")),
                }
            }
            PatchAction::DeleteMap { key } => match self.objs.get_mut(&k) {
                Some(VNode::Map(m)) => {
                    // deleting a key the view never saw (created and deleted between two observations) is harmless
                    m.remove(key);
                    Ok(())
                }
                _ => Err(format!("DeleteMap on non-map {k}")),
            },
            PatchAction::DeleteSeq { index, length } => match self.objs.get_mut(&k) {
                Some(VNode::List(l)) => {
                    if index + length > l.len() {
                        return Err(format!("DeleteSeq {index}+{length} out of range (len {}) in {k}", l.len()));
                    }
                    l.drain(*index..*index + *length);
                    Ok(())
                }
                Some(VNode::Text(t)) => {
                    let i = View::piece_at(t, *index)?;
                    let j = View::piece_at(t, *index + *length)?;
                    t.drain(i..j);
                    Ok(())
                }
                _ => Err(format!("DeleteSeq on non-sequence {k}")),
            },
            PatchAction::Mark { marks } => match self.objs.get_mut(&k) {
                Some(VNode::Text(t)) => {
                    for m in marks {
                        let i = View::piece_at(t, m.start)?;
                        let j = View::piece_at(t, m.end)?;
                        let v = Sv::from_am(m.value());
                        for p in &mut t[i..j] {
                            if v == Sv::Null {
                                p.marks.remove(m.name());
                            } else {
                                p.marks.insert(m.name().to_string(), v.clone());
                            }
                        }
                    }
                    Ok(())
                }
                _ => Err(format!("Mark on non-text {k}")),
            },
        }
    }

    pub fn apply_all(&mut self, patches: &[Patch]) -> Result<(), String> {
        for (i, p) in patches.iter().enumerate() {
            self.apply(p).map_err(|e| format!("patch {i} of {}: {e}", patches.len()))?;
        }
        Ok(())
    }
}

/// the comparable form of an R1/R2 tree: winners, conflict flags, counters, text with per-unit marks
pub fn view_of_tree(t: &Tree, enc: Enc) -> View {
    let mut v = View { objs: BTreeMap::new(), enc: Some(enc), ignored_unknown: 0 };
    fn slot(r: &Reg, v: &mut View, enc: Enc) -> Slot {
        let (id, val) = r.winner().unwrap();
        match val {
            Val::Scalar(s) => Slot { val: VVal::Scalar(s.clone()), conflict: r.conflict() },
            Val::Obj(t) => {
                let k = id.show();
                add(t, &k, v, enc);
                Slot { val: VVal::Obj(k), conflict: r.conflict() }
            }
        }
    }
    fn add(t: &Tree, key: &str, v: &mut View, enc: Enc) {
        let node = match t {
            Tree::Map(_, m) => VNode::Map(m.iter().map(|(k, r)| (k.clone(), slot(r, v, enc))).collect()),
            Tree::List(l) => VNode::List(l.iter().map(|r| slot(r, v, enc)).collect()),
            Tree::Text(tt) => {
                let mut pieces = Vec::new();
                for (i, r) in tt.elems.iter().enumerate() {
                    let marks = tt.marks[i].clone();
                    match &r.winner().unwrap().1 {
                        Val::Scalar(Sv::Str(s)) => {
                            // a multi-character element is one element in the document but the view holds units
                            for (u, w) in split_units(s, enc) {
                                pieces.push(Piece { s: u, width: w, marks: marks.clone(), embedded: None });
                            }
                        }
                        _ => {
                            let s = slot(r, v, enc);
                            pieces.push(Piece { s: PLACEHOLDER.into(), width: enc.width(PLACEHOLDER), marks, embedded: Some(s) });
                        }
                    }
                }
                VNode::Text(pieces)
            }
        };
        v.objs.insert(key.to_string(), node);
    }
    add(t, "_root", &mut v, enc);
    v
}

/// compare the part of `view` reachable from the root with `want` (both views); first difference
pub fn view_diff(want: &View, got: &View) -> Option<String> {
    fn go(want: &View, got: &View, wk: &str, gk: &str, path: &str) -> Option<String> {
        let (a, b) = match (want.objs.get(wk), got.objs.get(gk)) {
            (Some(a), Some(b)) => (a, b),
            (a, b) => return Some(format!("{path}: object missing ({} vs {})", a.is_some(), b.is_some())),
        };
        let slot = |x: &Slot, y: &Slot, p: String| -> Option<String> {
            if x.conflict != y.conflict {
                return Some(format!("{p}: conflict flag {} vs {}", x.conflict, y.conflict));
            }
            match (&x.val, &y.val) {
                (VVal::Scalar(s), VVal::Scalar(t)) => {
                    if s != t {
                        Some(format!("{p}: value {} vs {}", s.brief(), t.brief()))
                    } else {
                        None
                    }
                }
                (VVal::Obj(k1), VVal::Obj(k2)) => {
                    if k1 != k2 {
                        return Some(format!("{p}: object id {k1} vs {k2}"));
                    }
                    go(want, got, k1, k2, &p)
                }
                _ => Some(format!("{p}: scalar vs object")),
            }
        };
        match (a, b) {
            (VNode::Map(x), VNode::Map(y)) => {
                let kx: Vec<&String> = x.keys().collect();
                let ky: Vec<&String> = y.keys().collect();
                if kx != ky {
                    return Some(format!("{path}: keys {kx:?} vs {ky:?}"));
                }
                for (k, s) in x {
                    if let Some(d) = slot(s, &y[k], format!("{path}/{k}")) {
                        return Some(d);
                    }
                }
                None
            }
            (VNode::List(x), VNode::List(y)) => {
                if x.len() != y.len() {
                    return Some(format!("{path}: list length {} vs {}", x.len(), y.len()));
                }
                for (i, s) in x.iter().enumerate() {
                    if let Some(d) = slot(s, &y[i], format!("{path}/{i}")) {
                        return Some(d);
                    }
                }
                None
            }
            (VNode::Text(x), VNode::Text(y)) => {
                let sx: String = x.iter().map(|p| p.s.as_str()).collect();
                let sy: String = y.iter().map(|p| p.s.as_str()).collect();
                if sx != sy {
                    return Some(format!("{path}: text {sx:?} vs {sy:?}"));
                }
                if x.len() != y.len() {
                    return Some(format!("{path}: text pieces {} vs {}", x.len(), y.len()));
                }
                for (i, p) in x.iter().enumerate() {
                    if p.marks != y[i].marks {
                        return Some(format!("{path}: marks at unit {i}: {:?} vs {:?}", p.marks, y[i].marks));
                    }
                    match (&p.embedded, &y[i].embedded) {
                        (None, None) => {}
                        (Some(a), Some(b)) => {
                            // no patch can set or clear a conflict flag on a text position (Conflict patches on text carry
                            // nothing a text view could store): compare the embedded values, not the flags
                            let mut a = a.clone();
                            a.conflict = b.conflict;
                            if let Some(d) = slot(&a, b, format!("{path}/e{i}")) {
                                return Some(d);
                            }
                        }
                        // a scalar that is not a string (put(text, i, 3)) reaches a patch consumer as the placeholder character
                        // U+FFFC in a SpliceText patch - that is how text renders it, and the strings were compared above; only an
                        // embedded *object* (block marker) has an identity the view must hold
                        (Some(Slot { val: VVal::Scalar(_), .. }), None) | (None, Some(Slot { val: VVal::Scalar(_), .. })) => {}
                        _ => return Some(format!("{path}: embedded value at unit {i} on one side only")),
                    }
                }
                None
            }
            _ => Some(format!("{path}: object kinds differ")),
        }
    }
    go(want, got, "_root", "_root", "")
}
