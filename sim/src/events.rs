//! The schedule vocabulary. A run is a `Cfg` plus a flat `Vec<Ev>`; events carry selectors that are
//! resolved against the world at execution time, so every sub-sequence of a run is a valid run.

use crate::model::{Enc, OType, Sv};
use serde::{Deserialize, Serialize};

#[derive(Serialize, Deserialize, Clone, Debug, PartialEq)]
pub enum SvE {
    Null,
    Bool(bool),
    Int(i64),
    Uint(u64),
    /// IEEE bits, so that replay files are exact
    F64(u64),
    Str(String),
    Bytes(Vec<u8>),
    Counter(i64),
    Ts(i64),
}

impl SvE {
    pub fn to_sv(&self) -> Sv {
        match self {
            SvE::Null => Sv::Null,
            SvE::Bool(b) => Sv::Bool(*b),
            SvE::Int(i) => Sv::Int(*i),
            SvE::Uint(u) => Sv::Uint(*u),
            SvE::F64(f) => Sv::F64(*f),
            SvE::Str(s) => Sv::Str(s.clone()),
            SvE::Bytes(b) => Sv::Bytes(b.clone()),
            SvE::Counter(c) => Sv::Counter(*c),
            SvE::Ts(t) => Sv::Ts(*t),
        }
    }
}

#[derive(Serialize, Deserialize, Clone, Copy, Debug, PartialEq)]
pub enum OT {
    Map,
    List,
    Text,
    Table,
}

impl OT {
    pub fn to_otype(self) -> OType {
        match self {
            OT::Map => OType::Map,
            OT::List => OType::List,
            OT::Text => OType::Text,
            OT::Table => OType::Table,
        }
    }
}

/// how an object argument is chosen at execution time
#[derive(Serialize, Deserialize, Clone, Copy, Debug, PartialEq)]
pub enum ObjSel {
    Root,
    /// `n % count` over the objects of the wanted kind known to the replica
    Known(u32),
    /// `n % count` over *all* pool objects, of any kind, present in this replica or not (confused client)
    Any(u32),
}

#[derive(Serialize, Deserialize, Clone, Debug, PartialEq)]
pub enum EditOp {
    Put { obj: ObjSel, key: u32, val: SvE },
    PutObj { obj: ObjSel, key: u32, ty: OT },
    Insert { obj: ObjSel, idx: u32, val: SvE },
    InsertObj { obj: ObjSel, idx: u32, ty: OT },
    Delete { obj: ObjSel, key: u32 },
    Inc { obj: ObjSel, key: u32, by: i64 },
    SpliceText { obj: ObjSel, pos: u32, del: u32, text: String },
    Splice { obj: ObjSel, pos: u32, del: u32, vals: Vec<SvE> },
    Mark { obj: ObjSel, start: u32, len: u32, name: u8, val: SvE, expand: u8 },
    Unmark { obj: ObjSel, start: u32, len: u32, name: u8, expand: u8 },
    SplitBlock { obj: ObjSel, idx: u32 },
    JoinBlock { obj: ObjSel, idx: u32 },
    ReplaceBlock { obj: ObjSel, idx: u32 },
    UpdateText { obj: ObjSel, text: String },
}

#[derive(Serialize, Deserialize, Clone, Copy, Debug, PartialEq)]
pub enum SendWhat {
    /// every change the sender has
    All,
    /// what the sender created or learnt since its last send on this link
    SinceLast,
    /// a pseudo-random subset (keyed by the given number) of the sender's changes — may be out of causal order
    Subset(u32),
}

#[derive(Serialize, Deserialize, Clone, Copy, Debug, PartialEq)]
pub enum WireEnc {
    Raw,
    Compressed,
    Bundle,
    FullSave,
    Reencode,
}

#[derive(Serialize, Deserialize, Clone, Copy, Debug, PartialEq)]
pub enum CrashKind {
    /// every byte written so far survives
    Clean,
    /// pieces not yet fsynced are lost
    LoseUnsynced,
    /// the file is cut at `n % (len+1)` bytes
    Torn(u32),
    /// restore the k-th older durable image
    Stale(u32),
}

#[derive(Serialize, Deserialize, Clone, Copy, Debug, PartialEq)]
pub struct LoadOpts {
    pub partial_ignore: bool,
    pub unverified_heads: bool,
    pub migrate_strings: bool,
    pub keep_actor: bool,
}

#[derive(Serialize, Deserialize, Clone, Debug, PartialEq)]
pub enum Ev {
    Edit { r: u8, op: EditOp },
    Commit { r: u8, msg: Option<String>, dt: i64 },
    EmptyChange { r: u8, dt: i64 },
    Rollback { r: u8 },
    // change gossip
    Send { from: u8, to: u8, what: SendWhat, enc: WireEnc, batch: bool },
    Deliver { from: u8, to: u8, pick: u32 },
    DupPkt { from: u8, to: u8, pick: u32 },
    DropPkt { from: u8, to: u8, pick: u32 },
    Merge { from: u8, to: u8 },
    // replicas
    Fork { r: u8, same_actor: bool },
    ForkAt { r: u8, heads: u32 },
    SetActor { r: u8, actor: u8 },
    Isolate { r: u8, heads: u32 },
    Integrate { r: u8 },
    // storage
    Save { r: u8, deflate: bool, orphans: bool },
    SaveInc { r: u8 },
    SaveAfter { r: u8, heads: u32 },
    Fsync { r: u8 },
    Crash { r: u8, kind: CrashKind, opts: LoadOpts },
    // sync protocol
    Connect { a: u8, b: u8, restore_a: bool, restore_b: bool, ro_a: bool, ro_b: bool },
    Gen { from: u8, to: u8 },
    Recv { from: u8, to: u8 },
    Disconnect { a: u8, b: u8, persist: bool },
    SetReadOnly { r: u8, peer: u8, ro: bool },
    /// property-specific probe point (e.g. "check historical reads now"); argument is a selector
    Probe { r: u8, arg: u32 },
    // byzantine seam faults
    DeliverCorrupt { from: u8, to: u8, pick: u32, m: crate::mutate::Mutation },
    RecvCorrupt { from: u8, to: u8, m: crate::mutate::Mutation },
    CrashCorrupt { r: u8, m: crate::mutate::Mutation, opts: LoadOpts },
    /// decode mutated encodings of ids / cursors / hashes / actor ids / sync states / bloom filters, as bytes and as strings
    IdFuzz { r: u8, what: u8, sel: u32, m: crate::mutate::Mutation },
}

impl Ev {
    pub fn kind(&self) -> &'static str {
        match self {
            Ev::Edit { op, .. } => match op {
                EditOp::Put { .. } => "put",
                EditOp::PutObj { .. } => "put_object",
                EditOp::Insert { .. } => "insert",
                EditOp::InsertObj { .. } => "insert_object",
                EditOp::Delete { .. } => "delete",
                EditOp::Inc { .. } => "increment",
                EditOp::SpliceText { .. } => "splice_text",
                EditOp::Splice { .. } => "splice",
                EditOp::Mark { .. } => "mark",
                EditOp::Unmark { .. } => "unmark",
                EditOp::SplitBlock { .. } => "split_block",
                EditOp::JoinBlock { .. } => "join_block",
                EditOp::ReplaceBlock { .. } => "replace_block",
                EditOp::UpdateText { .. } => "update_text",
            },
            Ev::Commit { .. } => "commit",
            Ev::EmptyChange { .. } => "empty_change",
            Ev::Rollback { .. } => "rollback",
            Ev::Send { .. } => "send",
            Ev::Deliver { .. } => "deliver",
            Ev::DupPkt { .. } => "dup",
            Ev::DropPkt { .. } => "drop",
            Ev::Merge { .. } => "merge",
            Ev::Fork { .. } => "fork",
            Ev::ForkAt { .. } => "fork_at",
            Ev::SetActor { .. } => "set_actor",
            Ev::Isolate { .. } => "isolate",
            Ev::Integrate { .. } => "integrate",
            Ev::Save { .. } => "save",
            Ev::SaveInc { .. } => "save_incremental",
            Ev::SaveAfter { .. } => "save_after",
            Ev::Fsync { .. } => "fsync",
            Ev::Crash { .. } => "crash_restart",
            Ev::Connect { .. } => "connect",
            Ev::Gen { .. } => "gen",
            Ev::Recv { .. } => "recv",
            Ev::Disconnect { .. } => "disconnect",
            Ev::SetReadOnly { .. } => "set_read_only",
            Ev::Probe { .. } => "probe",
            Ev::DeliverCorrupt { .. } => "deliver_corrupt",
            Ev::RecvCorrupt { .. } => "recv_corrupt",
            Ev::CrashCorrupt { .. } => "crash_corrupt",
            Ev::IdFuzz { .. } => "id_fuzz",
        }
    }
    pub fn replica(&self) -> u8 {
        match self {
            Ev::Edit { r, .. }
            | Ev::Commit { r, .. }
            | Ev::EmptyChange { r, .. }
            | Ev::Rollback { r }
            | Ev::Fork { r, .. }
            | Ev::ForkAt { r, .. }
            | Ev::SetActor { r, .. }
            | Ev::Isolate { r, .. }
            | Ev::Integrate { r }
            | Ev::Save { r, .. }
            | Ev::SaveInc { r }
            | Ev::SaveAfter { r, .. }
            | Ev::Fsync { r }
            | Ev::Crash { r, .. }
            | Ev::SetReadOnly { r, .. }
            | Ev::CrashCorrupt { r, .. }
            | Ev::IdFuzz { r, .. }
            | Ev::Probe { r, .. } => *r,
            Ev::Send { to, .. } | Ev::Deliver { to, .. } | Ev::DupPkt { to, .. } | Ev::DropPkt { to, .. } => *to,
            Ev::DeliverCorrupt { to, .. } | Ev::RecvCorrupt { to, .. } => *to,
            Ev::Merge { to, .. } => *to,
            Ev::Connect { a, .. } | Ev::Disconnect { a, .. } => *a,
            Ev::Gen { from, .. } => *from,
            Ev::Recv { to, .. } => *to,
        }
    }
}

/// per-run configuration, drawn from the run seed ("swarm" style)
#[derive(Serialize, Deserialize, Clone, Debug, PartialEq)]
pub struct Cfg {
    pub replicas: u8,
    pub enc: Enc,
    /// actor bytes of each initial replica (chosen so that table order varies)
    pub actors: Vec<Vec<u8>>,
    /// pool of further actor ids for forks / set_actor / restarts
    pub spare_actors: Vec<Vec<u8>>,
    /// number of map keys in use
    pub keys: u8,
    /// known-finding quarantine switches (true = the risky feature is allowed)
    pub counters_in_seqs: bool,
    pub inc_on_conflicted_counters: bool,
    /// permille of bloom false positives forced through hook H1 (0 = hook inert)
    pub bloom_fp_permille: u32,
    /// ingestion path per replica used in the quiesce phase (C01)
    pub quiesce_paths: Vec<u8>,
    /// free parameters for property-specific use
    pub p1: u32,
    pub p2: u32,
}

impl Ev {
    /// events that hand the library crafted (mutated, possibly re-checksummed) bytes or strings
    pub fn is_byzantine(&self) -> bool {
        matches!(self, Ev::DeliverCorrupt { .. } | Ev::RecvCorrupt { .. } | Ev::CrashCorrupt { .. } | Ev::IdFuzz { .. })
    }
}
