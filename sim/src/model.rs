//! R0 (change registry) and R1 (reference CRDT interpreter).
//!
//! Nothing in the interpreter uses automerge's op set, visibility or ordering code: the only
//! library types that enter are `ExpandedChange` (decoded at registration time) and scalar values,
//! both immediately converted into the plain types below.

use crate::prng::Fnv;
use std::collections::{BTreeMap, BTreeSet};
use std::rc::Rc;

pub type Hash = [u8; 32];

#[derive(Clone, PartialEq, Eq, PartialOrd, Ord, Hash, Debug)]
pub struct Oid {
    pub ctr: u64,
    pub actor: Vec<u8>,
}

impl Oid {
    pub fn show(&self) -> String {
        format!("{}@{}", self.ctr, hex::encode(&self.actor))
    }
}

#[derive(Clone, PartialEq, Eq, PartialOrd, Ord, Hash, Debug)]
pub enum ObjRef {
    Root,
    Id(Oid),
}

impl ObjRef {
    pub fn show(&self) -> String {
        match self {
            ObjRef::Root => "_root".into(),
            ObjRef::Id(o) => o.show(),
        }
    }
}

#[derive(Clone, PartialEq, Eq, PartialOrd, Ord, Hash, Debug)]
pub enum KeyRef {
    Map(String),
    Head,
    Elem(Oid),
}

/// normalised scalar
#[derive(Clone, PartialEq, Eq, PartialOrd, Ord, Hash, Debug)]
pub enum Sv {
    Null,
    Bool(bool),
    Int(i64),
    Uint(u64),
    F64(u64),
    Str(String),
    Bytes(Vec<u8>),
    Counter(i64),
    Ts(i64),
    Unknown(u8, Vec<u8>),
}

impl Sv {
    pub fn from_am(v: &automerge::ScalarValue) -> Sv {
        use automerge::ScalarValue as S;
        match v {
            S::Null => Sv::Null,
            S::Boolean(b) => Sv::Bool(*b),
            S::Int(i) => Sv::Int(*i),
            S::Uint(u) => Sv::Uint(*u),
            S::F64(f) => Sv::F64(f.to_bits()),
            S::Str(s) => Sv::Str(s.to_string()),
            S::Bytes(b) => Sv::Bytes(b.clone()),
            S::Counter(c) => Sv::Counter(i64::from(c)),
            S::Timestamp(t) => Sv::Ts(*t),
            S::Unknown { type_code, bytes } => Sv::Unknown(*type_code, bytes.clone()),
        }
    }
    pub fn to_am(&self) -> automerge::ScalarValue {
        use automerge::ScalarValue as S;
        match self {
            Sv::Null => S::Null,
            Sv::Bool(b) => S::Boolean(*b),
            Sv::Int(i) => S::Int(*i),
            Sv::Uint(u) => S::Uint(*u),
            Sv::F64(f) => S::F64(f64::from_bits(*f)),
            Sv::Str(s) => S::Str(s.as_str().into()),
            Sv::Bytes(b) => S::Bytes(b.clone()),
            Sv::Counter(c) => S::counter(*c),
            Sv::Ts(t) => S::Timestamp(*t),
            Sv::Unknown(t, b) => S::Unknown {
                type_code: *t,
                bytes: b.clone(),
            },
        }
    }
    pub fn is_counter(&self) -> bool {
        matches!(self, Sv::Counter(_))
    }
    pub fn brief(&self) -> String {
        match self {
            Sv::Null => "null".into(),
            Sv::Bool(b) => format!("{b}"),
            Sv::Int(i) => format!("{i}"),
            Sv::Uint(u) => format!("{u}u"),
            Sv::F64(f) => format!("{}f", f64::from_bits(*f)),
            Sv::Str(s) => format!("{s:?}"),
            Sv::Bytes(b) => format!("x{}", hex::encode(b)),
            Sv::Counter(c) => format!("ctr({c})"),
            Sv::Ts(t) => format!("ts({t})"),
            Sv::Unknown(t, b) => format!("unk{}:{}", t, hex::encode(b)),
        }
    }
}

#[derive(Clone, Copy, PartialEq, Eq, Debug, Hash, PartialOrd, Ord)]
pub enum OType {
    Map,
    List,
    Text,
    Table,
}

impl OType {
    pub fn from_am(t: automerge::ObjType) -> OType {
        match t {
            automerge::ObjType::Map => OType::Map,
            automerge::ObjType::List => OType::List,
            automerge::ObjType::Text => OType::Text,
            automerge::ObjType::Table => OType::Table,
        }
    }
    pub fn to_am(self) -> automerge::ObjType {
        match self {
            OType::Map => automerge::ObjType::Map,
            OType::List => automerge::ObjType::List,
            OType::Text => automerge::ObjType::Text,
            OType::Table => automerge::ObjType::Table,
        }
    }
    pub fn is_seq(self) -> bool {
        matches!(self, OType::List | OType::Text)
    }
}

#[derive(Clone, PartialEq, Debug)]
pub enum Act {
    Make(OType),
    Put(Sv),
    Del,
    Inc(i64),
    MarkBegin { name: String, value: Sv, expand: bool },
    MarkEnd(bool),
}

#[derive(Clone, Debug)]
pub struct MOp {
    pub id: Oid,
    pub obj: ObjRef,
    pub key: KeyRef,
    pub insert: bool,
    pub act: Act,
    pub pred: Vec<Oid>,
}

#[derive(Clone, Debug)]
pub struct MChange {
    pub hash: Hash,
    pub actor: Vec<u8>,
    pub seq: u64,
    pub start_op: u64,
    pub time: i64,
    pub message: Option<String>,
    pub deps: Vec<Hash>,
    pub ops: Vec<MOp>,
    pub raw: Vec<u8>,
    /// global step at which the change was first seen by the harness
    pub born_step: u64,
    /// replica that created it (usize::MAX when unknown)
    pub creator: usize,
}

impl MChange {
    pub fn max_op(&self) -> u64 {
        self.start_op + self.ops.len() as u64 - 1
    }
}

pub fn convert_change(ch: &automerge::Change, born_step: u64, creator: usize) -> MChange {
    let ex = ch.decode();
    let actor = ex.actor_id.to_bytes().to_vec();
    let start = ex.start_op.get();
    let conv_oid = |o: &automerge::legacy::OpId| Oid {
        ctr: o.0,
        actor: o.1.to_bytes().to_vec(),
    };
    let ops = ex
        .operations
        .iter()
        .enumerate()
        .map(|(i, op)| {
            use automerge::legacy as l;
            let obj = match &op.obj {
                l::ObjectId::Root => ObjRef::Root,
                l::ObjectId::Id(o) => ObjRef::Id(conv_oid(o)),
            };
            let key = match &op.key {
                l::Key::Map(s) => KeyRef::Map(s.to_string()),
                l::Key::Seq(l::ElementId::Head) => KeyRef::Head,
                l::Key::Seq(l::ElementId::Id(o)) => KeyRef::Elem(conv_oid(o)),
            };
            let act = match &op.action {
                l::OpType::Make(t) => Act::Make(OType::from_am(*t)),
                l::OpType::Put(v) => Act::Put(Sv::from_am(v)),
                l::OpType::Delete => Act::Del,
                l::OpType::Increment(n) => Act::Inc(*n),
                l::OpType::MarkBegin(m) => Act::MarkBegin {
                    name: m.name.to_string(),
                    value: Sv::from_am(&m.value),
                    expand: m.expand,
                },
                l::OpType::MarkEnd(e) => Act::MarkEnd(*e),
            };
            MOp {
                id: Oid {
                    ctr: start + i as u64,
                    actor: actor.clone(),
                },
                obj,
                key,
                insert: op.insert,
                act,
                pred: op.pred.iter().map(conv_oid).collect(),
            }
        })
        .collect();
    MChange {
        hash: ch.hash().0,
        actor,
        seq: ex.seq,
        start_op: start,
        time: ex.time,
        message: ex.message.clone(),
        deps: ex.deps.iter().map(|h| h.0).collect(),
        ops,
        raw: ch.raw_bytes().to_vec(),
        born_step,
        creator,
    }
}

/// R0: every change the harness has ever seen, keyed by hash
#[derive(Default, Clone)]
pub struct Registry {
    pub changes: BTreeMap<Hash, Rc<MChange>>,
    pub order: Vec<Hash>,
}

impl Registry {
    pub fn get(&self, h: &Hash) -> Option<&Rc<MChange>> {
        self.changes.get(h)
    }
    pub fn contains(&self, h: &Hash) -> bool {
        self.changes.contains_key(h)
    }
    /// returns true when newly inserted
    pub fn insert(&mut self, c: MChange) -> bool {
        if self.changes.contains_key(&c.hash) {
            return false;
        }
        self.order.push(c.hash);
        self.changes.insert(c.hash, Rc::new(c));
        true
    }
    /// all ancestors of `heads` (inclusive) that are known; unknown hashes are reported in `missing`
    pub fn ancestors(&self, heads: &[Hash]) -> (BTreeSet<Hash>, BTreeSet<Hash>) {
        let mut seen = BTreeSet::new();
        let mut missing = BTreeSet::new();
        let mut stack: Vec<Hash> = heads.to_vec();
        while let Some(h) = stack.pop() {
            if seen.contains(&h) {
                continue;
            }
            match self.changes.get(&h) {
                Some(c) => {
                    seen.insert(h);
                    for d in &c.deps {
                        if !seen.contains(d) {
                            stack.push(*d);
                        }
                    }
                }
                None => {
                    missing.insert(h);
                }
            }
        }
        (seen, missing)
    }
    /// maximal elements of a dep-closed set
    pub fn heads_of(&self, set: &BTreeSet<Hash>) -> Vec<Hash> {
        let mut non_heads = BTreeSet::new();
        for h in set {
            if let Some(c) = self.changes.get(h) {
                for d in &c.deps {
                    non_heads.insert(*d);
                }
            }
        }
        set.iter().filter(|h| !non_heads.contains(*h)).cloned().collect()
    }
    /// greatest dep-closed subset of `set`
    pub fn closed_subset(&self, set: &BTreeSet<Hash>) -> BTreeSet<Hash> {
        // iterate to fixpoint: a change is in if all deps are in
        let mut ok: BTreeSet<Hash> = BTreeSet::new();
        // process in registry creation order repeatedly (deps are always created earlier, so one pass suffices
        // for honest histories; loop to be safe)
        loop {
            let before = ok.len();
            for h in &self.order {
                if ok.contains(h) || !set.contains(h) {
                    continue;
                }
                let c = &self.changes[h];
                if c.deps.iter().all(|d| ok.contains(d)) {
                    ok.insert(*h);
                }
            }
            if ok.len() == before {
                break;
            }
        }
        ok
    }
    /// a topological order (deps first) of a dep-closed set: registry creation order is one
    pub fn topo(&self, set: &BTreeSet<Hash>) -> Vec<Hash> {
        self.order.iter().filter(|h| set.contains(*h)).cloned().collect()
    }
}

// ------------------------------------------------------------------------------------------------
// Observable state tree (produced by R1 here and by R2 in observe.rs)

#[derive(Clone, PartialEq, Debug)]
pub enum Val {
    Scalar(Sv),
    Obj(Box<Tree>),
}

/// one multi-value register: visible values ascending by op id; the winner is the last
#[derive(Clone, PartialEq, Debug, Default)]
pub struct Reg {
    pub vals: Vec<(Oid, Val)>,
}

impl Reg {
    pub fn winner(&self) -> Option<&(Oid, Val)> {
        self.vals.last()
    }
    pub fn conflict(&self) -> bool {
        self.vals.len() > 1
    }
}

pub type MarkMap = BTreeMap<String, Sv>;

#[derive(Clone, PartialEq, Debug)]
pub enum Tree {
    Map(OType, BTreeMap<String, Reg>),
    List(Vec<Reg>),
    Text(TextTree),
}

#[derive(Clone, PartialEq, Debug, Default)]
pub struct TextTree {
    pub elems: Vec<Reg>,
    /// width of each element in the document's text encoding
    pub widths: Vec<usize>,
    /// marks active on each element (null-valued marks removed)
    pub marks: Vec<MarkMap>,
    pub text: String,
}

impl TextTree {
    pub fn len_units(&self) -> usize {
        self.widths.iter().sum()
    }
}

impl Tree {
    pub fn digest(&self) -> u64 {
        let mut f = Fnv::new();
        self.feed(&mut f);
        f.finish()
    }
    fn feed(&self, f: &mut Fnv) {
        match self {
            Tree::Map(t, m) => {
                f.u64(1 + *t as u64);
                f.u64(m.len() as u64);
                for (k, r) in m {
                    f.str(k);
                    feed_reg(r, f);
                }
            }
            Tree::List(l) => {
                f.u64(10);
                f.u64(l.len() as u64);
                for r in l {
                    feed_reg(r, f);
                }
            }
            Tree::Text(t) => {
                f.u64(11);
                f.u64(t.elems.len() as u64);
                for (i, r) in t.elems.iter().enumerate() {
                    feed_reg(r, f);
                    f.u64(t.widths[i] as u64);
                    for (k, v) in &t.marks[i] {
                        f.str(k);
                        f.str(&v.brief());
                    }
                }
            }
        }
    }
    pub fn count_nodes(&self) -> usize {
        let regs: Vec<&Reg> = match self {
            Tree::Map(_, m) => m.values().collect(),
            Tree::List(l) => l.iter().collect(),
            Tree::Text(t) => t.elems.iter().collect(),
        };
        1 + regs
            .iter()
            .map(|r| {
                r.vals
                    .iter()
                    .map(|(_, v)| match v {
                        Val::Scalar(_) => 1,
                        Val::Obj(t) => t.count_nodes(),
                    })
                    .sum::<usize>()
            })
            .sum::<usize>()
    }
}

fn feed_reg(r: &Reg, f: &mut Fnv) {
    f.u64(r.vals.len() as u64);
    for (id, v) in &r.vals {
        f.u64(id.ctr);
        f.write(&id.actor);
        match v {
            Val::Scalar(s) => f.str(&s.brief()),
            Val::Obj(t) => t.feed(f),
        }
    }
}

/// first difference between two trees, as a path + description (None when equal)
pub fn tree_diff(a: &Tree, b: &Tree) -> Option<String> {
    fn go(a: &Tree, b: &Tree, path: &mut Vec<String>) -> Option<String> {
        let here = |path: &Vec<String>, msg: String| Some(format!("/{}: {}", path.join("/"), msg));
        match (a, b) {
            (Tree::Map(ta, ma), Tree::Map(tb, mb)) => {
                if ta != tb {
                    return here(path, format!("object type {ta:?} vs {tb:?}"));
                }
                let ka: Vec<_> = ma.keys().collect();
                let kb: Vec<_> = mb.keys().collect();
                if ka != kb {
                    return here(path, format!("keys {ka:?} vs {kb:?}"));
                }
                for (k, ra) in ma {
                    path.push(k.clone());
                    if let Some(d) = go_reg(ra, &mb[k], path) {
                        return Some(d);
                    }
                    path.pop();
                }
                None
            }
            (Tree::List(la), Tree::List(lb)) => {
                if la.len() != lb.len() {
                    return here(path, format!("list length {} vs {}", la.len(), lb.len()));
                }
                for (i, ra) in la.iter().enumerate() {
                    path.push(i.to_string());
                    if let Some(d) = go_reg(ra, &lb[i], path) {
                        return Some(d);
                    }
                    path.pop();
                }
                None
            }
            (Tree::Text(ta), Tree::Text(tb)) => {
                if ta.text != tb.text {
                    return here(path, format!("text {:?} vs {:?}", ta.text, tb.text));
                }
                if ta.elems.len() != tb.elems.len() {
                    return here(
                        path,
                        format!("text elements {} vs {}", ta.elems.len(), tb.elems.len()),
                    );
                }
                if ta.widths != tb.widths {
                    return here(path, format!("widths {:?} vs {:?}", ta.widths, tb.widths));
                }
                for (i, ra) in ta.elems.iter().enumerate() {
                    path.push(format!("e{i}"));
                    if let Some(d) = go_reg(ra, &tb.elems[i], path) {
                        return Some(d);
                    }
                    path.pop();
                }
                for i in 0..ta.marks.len() {
                    if ta.marks[i] != tb.marks[i] {
                        return here(
                            path,
                            format!("marks at element {i}: {:?} vs {:?}", ta.marks[i], tb.marks[i]),
                        );
                    }
                }
                None
            }
            _ => here(path, "object kinds differ".to_string()),
        }
    }
    fn go_reg(a: &Reg, b: &Reg, path: &mut Vec<String>) -> Option<String> {
        let ids_a: Vec<String> = a.vals.iter().map(|(i, _)| i.show()).collect();
        let ids_b: Vec<String> = b.vals.iter().map(|(i, _)| i.show()).collect();
        if ids_a != ids_b {
            return Some(format!(
                "/{}: register ids {:?} vs {:?}",
                path.join("/"),
                ids_a,
                ids_b
            ));
        }
        for (i, (id, va)) in a.vals.iter().enumerate() {
            match (va, &b.vals[i].1) {
                (Val::Scalar(x), Val::Scalar(y)) => {
                    if x != y {
                        return Some(format!(
                            "/{}: value of {} is {} vs {}",
                            path.join("/"),
                            id.show(),
                            x.brief(),
                            y.brief()
                        ));
                    }
                }
                (Val::Obj(x), Val::Obj(y)) => {
                    path.push(format!("<{}>", id.show()));
                    if let Some(d) = go(x, y, path) {
                        return Some(d);
                    }
                    path.pop();
                }
                _ => {
                    return Some(format!(
                        "/{}: {} scalar vs object",
                        path.join("/"),
                        id.show()
                    ))
                }
            }
        }
        None
    }
    go(a, b, &mut Vec::new())
}

// ------------------------------------------------------------------------------------------------
// R1: the interpreter

#[derive(Clone, Copy, PartialEq, Eq, Debug, serde::Serialize, serde::Deserialize, Hash, PartialOrd, Ord)]
pub enum Enc {
    CodePoint,
    Utf8,
    Utf16,
    Grapheme,
}

impl Enc {
    pub fn to_am(self) -> automerge::TextEncoding {
        match self {
            Enc::CodePoint => automerge::TextEncoding::UnicodeCodePoint,
            Enc::Utf8 => automerge::TextEncoding::Utf8CodeUnit,
            Enc::Utf16 => automerge::TextEncoding::Utf16CodeUnit,
            Enc::Grapheme => automerge::TextEncoding::GraphemeCluster,
        }
    }
    pub fn from_am(e: automerge::TextEncoding) -> Enc {
        match e {
            automerge::TextEncoding::UnicodeCodePoint => Enc::CodePoint,
            automerge::TextEncoding::Utf8CodeUnit => Enc::Utf8,
            automerge::TextEncoding::Utf16CodeUnit => Enc::Utf16,
            automerge::TextEncoding::GraphemeCluster => Enc::Grapheme,
        }
    }
    pub fn width(self, s: &str) -> usize {
        match self {
            Enc::CodePoint => s.chars().count(),
            Enc::Utf8 => s.len(),
            Enc::Utf16 => s.encode_utf16().count(),
            Enc::Grapheme => unicode_segmentation::UnicodeSegmentation::graphemes(s, true).count(),
        }
    }
}

pub const PLACEHOLDER: &str = "\u{fffc}";

struct Ctx<'a> {
    ops: Vec<&'a MOp>,
    index: BTreeMap<&'a Oid, usize>,
    /// successors: ops naming op i in pred
    succ: Vec<Vec<usize>>,
    /// per object: map key -> ops ; seq: ref elem -> insert ops; elem -> update ops
    map_ops: BTreeMap<&'a ObjRef, BTreeMap<&'a str, Vec<usize>>>,
    children: BTreeMap<&'a ObjRef, BTreeMap<Option<&'a Oid>, Vec<usize>>>,
    updates: BTreeMap<&'a ObjRef, BTreeMap<&'a Oid, Vec<usize>>>,
    enc: Enc,
}

/// one element of a sequence in R1's order, visible or not (used by cursor/expand oracles)
#[derive(Clone, Debug)]
pub struct SeqElem {
    pub id: Oid,
    /// the op reference this element was inserted after (None = head)
    pub parent: Option<Oid>,
    pub kind: ElemKind,
    pub visible: bool,
    pub width: usize,
}

#[derive(Clone, Debug, PartialEq)]
pub enum ElemKind {
    Value,
    MarkBegin { name: String, value: Sv, expand: bool },
    MarkEnd { expand: bool },
}

pub struct Interp<'a> {
    ctx: Ctx<'a>,
}

impl<'a> Interp<'a> {
    pub fn new(changes: impl Iterator<Item = &'a MChange>, enc: Enc) -> Interp<'a> {
        let mut ops: Vec<&MOp> = Vec::new();
        for c in changes {
            for op in &c.ops {
                ops.push(op);
            }
        }
        let mut index = BTreeMap::new();
        for (i, op) in ops.iter().enumerate() {
            index.insert(&op.id, i);
        }
        let mut succ = vec![Vec::new(); ops.len()];
        let mut map_ops: BTreeMap<&ObjRef, BTreeMap<&str, Vec<usize>>> = BTreeMap::new();
        let mut children: BTreeMap<&ObjRef, BTreeMap<Option<&Oid>, Vec<usize>>> = BTreeMap::new();
        let mut updates: BTreeMap<&ObjRef, BTreeMap<&Oid, Vec<usize>>> = BTreeMap::new();
        for (i, op) in ops.iter().enumerate() {
            for p in &op.pred {
                if let Some(j) = index.get(p) {
                    succ[*j].push(i);
                }
            }
            match &op.key {
                KeyRef::Map(k) => {
                    map_ops.entry(&op.obj).or_default().entry(k.as_str()).or_default().push(i);
                }
                KeyRef::Head => {
                    if op.insert {
                        children.entry(&op.obj).or_default().entry(None).or_default().push(i);
                    }
                }
                KeyRef::Elem(e) => {
                    if op.insert {
                        children.entry(&op.obj).or_default().entry(Some(e)).or_default().push(i);
                    } else {
                        updates.entry(&op.obj).or_default().entry(e).or_default().push(i);
                    }
                }
            }
        }
        Interp {
            ctx: Ctx {
                ops,
                index,
                succ,
                map_ops,
                children,
                updates,
                enc,
            },
        }
    }

    fn is_value_op(&self, i: usize) -> bool {
        matches!(self.ctx.ops[i].act, Act::Put(_) | Act::Make(_))
    }

    fn visible(&self, i: usize) -> bool {
        if !self.is_value_op(i) {
            return false;
        }
        let is_counter = matches!(&self.ctx.ops[i].act, Act::Put(Sv::Counter(_)));
        for j in &self.ctx.succ[i] {
            match &self.ctx.ops[*j].act {
                Act::Del | Act::Put(_) | Act::Make(_) => return false,
                Act::Inc(_) => {
                    if !is_counter {
                        return false;
                    }
                }
                _ => {}
            }
        }
        true
    }

    fn value_of(&self, i: usize, depth: usize) -> Val {
        let op = self.ctx.ops[i];
        match &op.act {
            Act::Put(Sv::Counter(n)) => {
                let mut v = *n;
                for j in &self.ctx.succ[i] {
                    if let Act::Inc(d) = &self.ctx.ops[*j].act {
                        v = v.wrapping_add(*d);
                    }
                }
                Val::Scalar(Sv::Counter(v))
            }
            Act::Put(s) => Val::Scalar(s.clone()),
            Act::Make(t) => {
                let r = ObjRef::Id(op.id.clone());
                Val::Obj(Box::new(self.object(&r, *t, depth + 1)))
            }
            _ => unreachable!(),
        }
    }

    fn reg_of(&self, mut idxs: Vec<usize>, depth: usize) -> Reg {
        idxs.retain(|i| self.visible(*i));
        idxs.sort_by(|a, b| self.ctx.ops[*a].id.cmp(&self.ctx.ops[*b].id));
        Reg {
            vals: idxs
                .into_iter()
                .map(|i| (self.ctx.ops[i].id.clone(), self.value_of(i, depth)))
                .collect(),
        }
    }

    /// all elements of a sequence object in RGA order (including invisible ones and mark anchors)
    fn seq_order(&self, obj: &ObjRef) -> Vec<usize> {
        let empty = BTreeMap::new();
        let kids = self.ctx.children.get(obj).unwrap_or(&empty);
        let mut out = Vec::new();
        // iterative DFS; children in descending id order
        let mut stack: Vec<usize> = Vec::new();
        let push_children = |stack: &mut Vec<usize>, key: Option<&Oid>| {
            if let Some(v) = kids.get(&key) {
                let mut v = v.clone();
                // ascending, then push so that the greatest is popped first
                v.sort_by(|a, b| self.ctx.ops[*a].id.cmp(&self.ctx.ops[*b].id));
                for i in v {
                    stack.push(i);
                }
            }
        };
        push_children(&mut stack, None);
        while let Some(i) = stack.pop() {
            out.push(i);
            push_children(&mut stack, Some(&self.ctx.ops[i].id));
        }
        out
    }

    fn elem_reg(&self, obj: &ObjRef, i: usize, depth: usize) -> Reg {
        let op = self.ctx.ops[i];
        let mut idxs = Vec::new();
        if self.is_value_op(i) {
            idxs.push(i);
        }
        if let Some(u) = self.ctx.updates.get(obj).and_then(|m| m.get(&op.id)) {
            idxs.extend(u.iter().cloned());
        }
        self.reg_of(idxs, depth)
    }

    pub fn object(&self, obj: &ObjRef, typ: OType, depth: usize) -> Tree {
        assert!(depth < 200, "R1: object nesting too deep");
        match typ {
            OType::Map | OType::Table => {
                let mut m = BTreeMap::new();
                if let Some(keys) = self.ctx.map_ops.get(obj) {
                    for (k, idxs) in keys {
                        let r = self.reg_of(idxs.clone(), depth);
                        if !r.vals.is_empty() {
                            m.insert(k.to_string(), r);
                        }
                    }
                }
                Tree::Map(typ, m)
            }
            OType::List => {
                let mut l = Vec::new();
                for i in self.seq_order(obj) {
                    let r = self.elem_reg(obj, i, depth);
                    if !r.vals.is_empty() {
                        l.push(r);
                    }
                }
                Tree::List(l)
            }
            OType::Text => {
                let mut t = TextTree::default();
                // active marks: begin id -> (name, value)
                let mut active: BTreeMap<Oid, (String, Sv)> = BTreeMap::new();
                for i in self.seq_order(obj) {
                    let op = self.ctx.ops[i];
                    match &op.act {
                        Act::MarkBegin { name, value, .. } => {
                            active.insert(op.id.clone(), (name.clone(), value.clone()));
                            continue;
                        }
                        Act::MarkEnd(_) => {
                            if op.id.ctr > 0 {
                                let b = Oid {
                                    ctr: op.id.ctr - 1,
                                    actor: op.id.actor.clone(),
                                };
                                active.remove(&b);
                            }
                            continue;
                        }
                        _ => {}
                    }
                    let r = self.elem_reg(obj, i, depth);
                    if r.vals.is_empty() {
                        continue;
                    }
                    let s: String = match &r.winner().unwrap().1 {
                        Val::Scalar(Sv::Str(s)) => s.clone(),
                        _ => PLACEHOLDER.to_string(),
                    };
                    t.widths.push(self.ctx.enc.width(&s));
                    t.text.push_str(&s);
                    // ascending id iteration => the greatest id of each name wins
                    let mut mm = MarkMap::new();
                    for (_, (name, value)) in active.iter() {
                        mm.insert(name.clone(), value.clone());
                    }
                    mm.retain(|_, v| *v != Sv::Null);
                    t.marks.push(mm);
                    t.elems.push(r);
                }
                Tree::Text(t)
            }
        }
    }

    pub fn root(&self) -> Tree {
        self.object(&ObjRef::Root, OType::Map, 0)
    }

    /// object type of an object id, if its make op is in the set
    pub fn obj_type(&self, obj: &ObjRef) -> Option<OType> {
        match obj {
            ObjRef::Root => Some(OType::Map),
            ObjRef::Id(o) => self.ctx.index.get(o).and_then(|i| match &self.ctx.ops[*i].act {
                Act::Make(t) => Some(*t),
                _ => None,
            }),
        }
    }

    /// the sequence element an op belongs to: itself for an insert, the element it updates otherwise
    pub fn elem_of_op(&self, o: &Oid) -> Option<Oid> {
        let op = self.ctx.ops[*self.ctx.index.get(o)?];
        if op.insert {
            Some(op.id.clone())
        } else {
            match &op.key {
                KeyRef::Elem(e) => Some(e.clone()),
                _ => None,
            }
        }
    }

    /// does the sequence element have value ops besides its insert op (it was overwritten by put / put_object)?
    pub fn elem_overwritten(&self, obj: &ObjRef, elem: &Oid) -> bool {
        self.ctx.updates.get(obj).and_then(|m| m.get(elem)).map_or(false, |u| u.iter().any(|i| self.is_value_op(*i)))
    }

    /// short description of what kind of op an id names
    pub fn op_kind(&self, o: &Oid) -> &'static str {
        match self.ctx.index.get(o).map(|i| &self.ctx.ops[*i].act) {
            Some(Act::MarkBegin { .. }) => "mark-begin",
            Some(Act::MarkEnd(_)) => "mark-end",
            Some(Act::Make(_)) => "make",
            Some(Act::Put(_)) => "put",
            Some(Act::Del) => "delete",
            Some(Act::Inc(_)) => "increment",
            None => "unknown",
        }
    }

    pub fn has_op(&self, o: &Oid) -> bool {
        self.ctx.index.contains_key(o)
    }

    /// every object (root first, then by make-op id) with its type — reachable or not
    pub fn all_objects(&self) -> Vec<(ObjRef, OType)> {
        let mut v = vec![(ObjRef::Root, OType::Map)];
        let mut made: Vec<(Oid, OType)> = self
            .ctx
            .ops
            .iter()
            .filter_map(|op| match &op.act {
                Act::Make(t) => Some((op.id.clone(), *t)),
                _ => None,
            })
            .collect();
        made.sort();
        v.extend(made.into_iter().map(|(o, t)| (ObjRef::Id(o), t)));
        v
    }

    /// full element list of a sequence, for cursor and expand oracles
    pub fn seq_elems(&self, obj: &ObjRef) -> Vec<SeqElem> {
        let is_text = self.obj_type(obj) == Some(OType::Text);
        self.seq_order(obj)
            .into_iter()
            .map(|i| {
                let op = self.ctx.ops[i];
                let parent = match &op.key {
                    KeyRef::Elem(e) => Some(e.clone()),
                    _ => None,
                };
                match &op.act {
                    Act::MarkBegin { name, value, expand } => SeqElem {
                        id: op.id.clone(),
                        parent,
                        kind: ElemKind::MarkBegin {
                            name: name.clone(),
                            value: value.clone(),
                            expand: *expand,
                        },
                        visible: false,
                        width: 0,
                    },
                    Act::MarkEnd(e) => SeqElem {
                        id: op.id.clone(),
                        parent,
                        kind: ElemKind::MarkEnd { expand: *e },
                        visible: false,
                        width: 0,
                    },
                    _ => {
                        let r = self.elem_reg(obj, i, 0);
                        let visible = !r.vals.is_empty();
                        let width = if !visible {
                            0
                        } else if is_text {
                            match &r.winner().unwrap().1 {
                                Val::Scalar(Sv::Str(s)) => self.ctx.enc.width(s),
                                _ => self.ctx.enc.width(PLACEHOLDER),
                            }
                        } else {
                            1
                        };
                        SeqElem {
                            id: op.id.clone(),
                            parent,
                            kind: ElemKind::Value,
                            visible,
                            width,
                        }
                    }
                }
            })
            .collect()
    }

    pub fn op_count(&self) -> usize {
        self.ctx.ops.len()
    }
}

/// interpret the dep-closed change set `set` of `reg`
pub fn interpret(reg: &Registry, set: &BTreeSet<Hash>, enc: Enc) -> Tree {
    let changes: Vec<&MChange> = set.iter().filter_map(|h| reg.get(h).map(|c| &**c)).collect();
    Interp::new(changes.into_iter(), enc).root()
}

/// SHA-256 of a change chunk computed by the harness: hash = sha256(type ‖ leb(len) ‖ data)
pub fn chunk_hash(raw: &[u8]) -> Option<Hash> {
    use sha2::Digest;
    if raw.len() < 9 {
        return None;
    }
    let mut h = sha2::Sha256::new();
    h.update(&raw[8..]);
    let out = h.finalize();
    let mut r = [0u8; 32];
    r.copy_from_slice(&out);
    Some(r)
}
