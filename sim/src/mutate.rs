//! Byzantine seam faults: structure-aware mutation of chunks (documents, changes, bundles) and sync messages.
//! Uses only the harness's own layout readers (chunks.rs and the walkers below).

use crate::chunks::{self, read_uleb, write_uleb, ChunkInfo};
use crate::prng::Rng;
use serde::{Deserialize, Serialize};

#[derive(Serialize, Deserialize, Clone, Copy, Debug, PartialEq)]
pub enum MutClass {
    BitFlip,
    ByteSet,
    Truncate,
    Extend,
    /// a structural LEB field (count, length, seq, start_op, column length, column spec) set to an extreme value
    FieldExtreme,
    /// a LEB written at a random offset inside the column data
    DataLeb,
    /// a column's bytes replaced (random bytes, truncated, doubled, another column's)
    ColumnSplice,
    /// column specs duplicated / reordered / retyped / marked deflated
    SpecMutate,
    /// invalid UTF-8 placed into a string position
    Utf8Poison,
    /// random bytes altogether
    Garbage,
    /// a structurally coherent edit that still parses: one head (document chunk) or dependency (change, bundle chunk) dropped
    /// or duplicated together with its count and, for documents, its head index; checksum always recomputed. What a decoder
    /// that verifies "some" rather than "exactly these" would let through.
    Coherent,
}

pub const ALL_CLASSES: [MutClass; 11] = [
    MutClass::Coherent,
    MutClass::BitFlip,
    MutClass::ByteSet,
    MutClass::Truncate,
    MutClass::Extend,
    MutClass::FieldExtreme,
    MutClass::DataLeb,
    MutClass::ColumnSplice,
    MutClass::SpecMutate,
    MutClass::Utf8Poison,
    MutClass::Garbage,
];

#[derive(Serialize, Deserialize, Clone, Copy, Debug, PartialEq)]
pub struct Mutation {
    pub class: MutClass,
    pub seed: u32,
    pub fix_checksum: bool,
}

#[derive(Clone, Debug, PartialEq)]
enum FieldKind {
    Count,
    Len,
    Num,
    Bytes,
    Str,
    Spec,
    ColLen,
    ColData(u64),
}

#[derive(Clone, Debug)]
struct Field {
    name: &'static str,
    start: usize,
    end: usize,
    kind: FieldKind,
}

struct Walker<'a> {
    b: &'a [u8],
    pos: usize,
    end: usize,
    fields: Vec<Field>,
}

impl<'a> Walker<'a> {
    fn uleb(&mut self, name: &'static str, kind: FieldKind) -> Option<u64> {
        let (v, p) = read_uleb(&self.b[..self.end], self.pos)?;
        self.fields.push(Field { name, start: self.pos, end: p, kind });
        self.pos = p;
        Some(v)
    }
    fn bytes(&mut self, name: &'static str, n: usize, kind: FieldKind) -> Option<()> {
        let e = self.pos.checked_add(n)?;
        if e > self.end {
            return None;
        }
        self.fields.push(Field { name, start: self.pos, end: e, kind });
        self.pos = e;
        Some(())
    }
    fn hashes(&mut self, name: &'static str) -> Option<()> {
        let n = self.uleb(name, FieldKind::Count)?;
        for _ in 0..n.min(10_000) {
            self.bytes("hash", 32, FieldKind::Bytes)?;
        }
        Some(())
    }
    fn actor(&mut self) -> Option<()> {
        let n = self.uleb("actor_len", FieldKind::Len)?;
        self.bytes("actor", n as usize, FieldKind::Bytes)
    }
    fn actors(&mut self) -> Option<()> {
        let n = self.uleb("actor_count", FieldKind::Count)?;
        for _ in 0..n.min(10_000) {
            self.actor()?;
        }
        Some(())
    }
    /// column metadata; returns (spec, len) list
    fn col_meta(&mut self) -> Option<Vec<(u64, u64)>> {
        let n = self.uleb("column_count", FieldKind::Count)?;
        let mut v = Vec::new();
        for _ in 0..n.min(1000) {
            let s = self.uleb("column_spec", FieldKind::Spec)?;
            let l = self.uleb("column_len", FieldKind::ColLen)?;
            v.push((s, l));
        }
        Some(v)
    }
    fn col_data(&mut self, meta: &[(u64, u64)]) -> Option<()> {
        for (s, l) in meta {
            self.bytes("column_data", *l as usize, FieldKind::ColData(*s))?;
        }
        Some(())
    }
}

/// fields of one chunk (best effort: stops where the layout no longer parses)
fn fields_of(b: &[u8], c: &ChunkInfo) -> Vec<Field> {
    let mut w = Walker { b, pos: c.data_start, end: c.end, fields: vec![] };
    w.fields.push(Field { name: "chunk_len", start: c.len_start, end: c.data_start, kind: FieldKind::Len });
    let _ = (|| -> Option<()> {
        match c.typ {
            1 => {
                w.hashes("deps")?;
                w.actor()?;
                w.uleb("seq", FieldKind::Num)?;
                w.uleb("start_op", FieldKind::Num)?;
                w.uleb("time", FieldKind::Num)?;
                let ml = w.uleb("message_len", FieldKind::Len)?;
                w.bytes("message", ml as usize, FieldKind::Str)?;
                w.actors()?;
                let meta = w.col_meta()?;
                w.col_data(&meta)?;
            }
            0 => {
                w.actors()?;
                w.hashes("heads")?;
                let cm = w.col_meta()?;
                let om = w.col_meta()?;
                w.col_data(&cm)?;
                w.col_data(&om)?;
                while w.pos < w.end {
                    w.uleb("head_index", FieldKind::Num)?;
                }
            }
            3 => {
                w.hashes("deps")?;
                w.actors()?;
                let cm = w.col_meta()?;
                w.col_data(&cm)?;
                let om = w.col_meta()?;
                w.col_data(&om)?;
            }
            _ => {}
        }
        Some(())
    })();
    w.fields
}

/// fields of a sync message
fn sync_fields(b: &[u8]) -> Vec<Field> {
    let mut w = Walker { b, pos: 1.min(b.len()), end: b.len(), fields: vec![] };
    let _ = (|| -> Option<()> {
        w.hashes("heads")?;
        w.hashes("need")?;
        let n = w.uleb("have_count", FieldKind::Count)?;
        for _ in 0..n.min(100) {
            w.hashes("last_sync")?;
            let bl = w.uleb("bloom_len", FieldKind::Len)?;
            let bend = w.pos + bl as usize;
            if bl > 0 && bend <= w.end {
                let save_end = w.end;
                w.end = bend;
                w.uleb("bloom_entries", FieldKind::Num)?;
                w.uleb("bloom_bits_per_entry", FieldKind::Num)?;
                w.uleb("bloom_probes", FieldKind::Num)?;
                let rest = bend - w.pos;
                w.bytes("bloom_bits", rest, FieldKind::Bytes)?;
                w.end = save_end;
            }
        }
        let n = w.uleb("change_count", FieldKind::Count)?;
        for _ in 0..n.min(10_000) {
            let l = w.uleb("change_len", FieldKind::Len)?;
            w.bytes("change", l as usize, FieldKind::Bytes)?;
        }
        Some(())
    })();
    w.fields
}

const EXTREMES: [u64; 12] = [0, 1, 2, 127, 128, 0xffff_ffff, 0x1_0000_0000, 1 << 62, 1 << 63, u64::MAX, 0x7fff_ffff, 300];

fn splice(b: &[u8], start: usize, end: usize, with: &[u8]) -> Vec<u8> {
    let mut out = Vec::with_capacity(b.len() + with.len());
    out.extend_from_slice(&b[..start]);
    out.extend_from_slice(with);
    out.extend_from_slice(&b[end..]);
    out
}

/// payload byte ranges of the strings inside a string-RLE column
fn string_payloads(b: &[u8], start: usize, end: usize) -> Vec<(usize, usize)> {
    let mut out = Vec::new();
    let mut pos = start;
    let read_sleb = |pos: usize| -> Option<(i64, usize)> {
        let mut result: i64 = 0;
        let mut shift = 0;
        let mut p = pos;
        loop {
            let byte = *b.get(p)?;
            if p >= end {
                return None;
            }
            p += 1;
            result |= ((byte & 0x7f) as i64) << shift;
            shift += 7;
            if byte & 0x80 == 0 {
                if shift < 64 && (byte & 0x40) != 0 {
                    result |= -1i64 << shift;
                }
                return Some((result, p));
            }
            if shift >= 64 {
                return None;
            }
        }
    };
    while pos < end {
        let (n, p) = match read_sleb(pos) {
            Some(x) => x,
            None => break,
        };
        pos = p;
        let lits = if n > 0 {
            1
        } else if n < 0 {
            (-n) as usize
        } else {
            // null run: a count follows
            match read_uleb(&b[..end], pos) {
                Some((_, p)) => {
                    pos = p;
                    continue;
                }
                None => break,
            }
        };
        for _ in 0..lits.min(10_000) {
            let (l, p) = match read_uleb(&b[..end], pos) {
                Some(x) => x,
                None => return out,
            };
            let e = p + l as usize;
            if e > end {
                return out;
            }
            if l > 0 {
                out.push((p, e));
            }
            pos = e;
        }
    }
    out
}

const BAD_UTF8: [&[u8]; 6] = [&[0xff], &[0xc0, 0x80], &[0x80], &[0xed, 0xa0, 0x80], &[0xf8, 0x88, 0x80, 0x80, 0x80], &[0xe2, 0x82]];

/// after the body of a chunk changed size, rewrite its length field; then (optionally) its checksum
fn refit(mut b: Vec<u8>, c: &ChunkInfo, delta: isize, fix: bool) -> Vec<u8> {
    let old_len = c.end - c.data_start;
    let new_len = (old_len as isize + delta).max(0) as u64;
    let mut lenb = Vec::new();
    write_uleb(new_len, &mut lenb);
    b = splice(&b, c.len_start, c.data_start, &lenb);
    if fix {
        let shift = lenb.len() as isize - (c.data_start - c.len_start) as isize;
        let ds = (c.data_start as isize + shift) as usize;
        let ci = ChunkInfo { start: c.start, end: (ds as u64 + new_len) as usize, typ: c.typ, len_start: c.len_start, data_start: ds };
        if ci.end <= b.len() {
            chunks::fix_checksum(&mut b, &ci);
        }
    }
    b
}

/// mutate a chunk stream (file, change bytes, bundle). Returns (mutant, description).
pub fn mutate_chunks(input: &[u8], m: Mutation) -> (Vec<u8>, String) {
    let mut rng = Rng::new(m.seed as u64 ^ 0xB12A_0000);
    if input.is_empty() {
        return (rng.bytes(8), "garbage for empty input".into());
    }
    let cs = chunks::parse_chunks(input);
    let generic = |rng: &mut Rng, class: MutClass| -> (Vec<u8>, String) {
        let mut b = input.to_vec();
        match class {
            MutClass::ByteSet => {
                let p = rng.usize(b.len());
                let v = *rng.pickv(&[0u8, 0x7f, 0x80, 0xff, 0x01]);
                b[p] = v;
                (b, format!("byte {p} := {v:#04x}"))
            }
            MutClass::Truncate => {
                let p = rng.usize(b.len());
                b.truncate(p);
                (b, format!("truncate at {p}"))
            }
            MutClass::Extend => {
                let n = 1 + rng.usize(16);
                if rng.bool() {
                    let extra = rng.bytes(n);
                    b.extend_from_slice(&extra);
                    (b, format!("append {n} random bytes"))
                } else {
                    let s = rng.usize(b.len());
                    let e = (s + 1 + rng.usize(64)).min(b.len());
                    let dup = b[s..e].to_vec();
                    b.extend_from_slice(&dup);
                    (b, format!("append a copy of bytes {s}..{e}"))
                }
            }
            MutClass::Garbage => {
                let n = rng.usize(64);
                let mut g = rng.bytes(n);
                if rng.bool() && g.len() >= 9 {
                    g[..4].copy_from_slice(&chunks::MAGIC);
                    g[8] = rng.below(4) as u8;
                }
                (g, "random bytes".into())
            }
            _ => {
                let p = rng.usize(b.len());
                let bit = rng.below(8) as u8;
                b[p] ^= 1 << bit;
                (b, format!("flip bit {bit} of byte {p}"))
            }
        }
    };
    if cs.is_empty() || matches!(m.class, MutClass::Garbage | MutClass::Truncate | MutClass::Extend) {
        return generic(&mut rng, m.class);
    }
    let ci = rng.usize(cs.len());
    let c = cs[ci].clone();
    // compressed change chunks: mutate the inflated body, re-deflate
    if c.typ == 2 {
        if let Some(body) = chunks::inflate(&input[c.data_start..c.end]) {
            let mut inner = vec![0x85, 0x6f, 0x4a, 0x83, 0, 0, 0, 0, 1];
            write_uleb(body.len() as u64, &mut inner);
            inner.extend_from_slice(&body);
            let (mi, d) = mutate_chunks(&inner, Mutation { class: m.class, seed: m.seed.wrapping_add(1), fix_checksum: true });
            let ics = chunks::parse_chunks(&mi);
            if ics.len() == 1 {
                let nb = &mi[ics[0].data_start..ics[0].end];
                let z = chunks::deflate(nb);
                let mut out = input[..c.start].to_vec();
                out.extend_from_slice(&chunks::MAGIC);
                out.extend_from_slice(&mi[4..8]);
                out.push(2);
                write_uleb(z.len() as u64, &mut out);
                out.extend_from_slice(&z);
                out.extend_from_slice(&input[c.end..]);
                return (out, format!("inside compressed change {ci}: {d}"));
            }
        }
        return generic(&mut rng, MutClass::BitFlip);
    }
    let fields = fields_of(input, &c);
    let finish = |b: Vec<u8>, delta: isize, fix: bool| refit(b, &c, delta, fix);
    match m.class {
        MutClass::BitFlip | MutClass::ByteSet => {
            // inside the chunk's data so that (with a fixed checksum) it reaches the decoders
            let p = c.data_start + rng.usize((c.end - c.data_start).max(1));
            let mut b = input.to_vec();
            let d;
            if p < b.len() {
                if m.class == MutClass::BitFlip {
                    let bit = rng.below(8) as u8;
                    b[p] ^= 1 << bit;
                    d = format!("chunk {ci} type {}: flip bit {bit} of byte {p}", c.typ);
                } else {
                    let v = *rng.pickv(&[0u8, 0x7f, 0x80, 0xff, 0x01]);
                    b[p] = v;
                    d = format!("chunk {ci} type {}: byte {p} := {v:#04x}", c.typ);
                }
            } else {
                d = "no-op".into();
            }
            (finish(b, 0, m.fix_checksum), d)
        }
        MutClass::FieldExtreme => {
            let cands: Vec<&Field> = fields
                .iter()
                .filter(|f| matches!(f.kind, FieldKind::Count | FieldKind::Len | FieldKind::Num | FieldKind::Spec | FieldKind::ColLen) && f.name != "chunk_len")
                .collect();
            if cands.is_empty() {
                return generic(&mut rng, MutClass::BitFlip);
            }
            let f = cands[rng.usize(cands.len())];
            let old = read_uleb(input, f.start).map(|x| x.0).unwrap_or(0);
            let v = match rng.below(4) {
                0 => old.wrapping_add(1),
                1 => old.wrapping_sub(1),
                _ => *rng.pickv(&EXTREMES),
            };
            let mut enc = Vec::new();
            write_uleb(v, &mut enc);
            let b = splice(input, f.start, f.end, &enc);
            let delta = enc.len() as isize - (f.end - f.start) as isize;
            (finish(b, delta, m.fix_checksum), format!("chunk {ci} type {}: field {} {} -> {}", c.typ, f.name, old, v))
        }
        MutClass::DataLeb => {
            let cols: Vec<&Field> = fields.iter().filter(|f| matches!(f.kind, FieldKind::ColData(_)) && f.end > f.start).collect();
            if cols.is_empty() {
                return generic(&mut rng, MutClass::BitFlip);
            }
            let f = cols[rng.usize(cols.len())];
            let p = f.start + rng.usize(f.end - f.start);
            let v = *rng.pickv(&EXTREMES);
            let mut enc = Vec::new();
            if rng.bool() {
                write_uleb(v, &mut enc);
            } else {
                chunks::write_sleb(v as i64, &mut enc);
            }
            // overwrite in place (same total length) when possible, else insert
            let (b, delta) = if p + enc.len() <= f.end && rng.bool() {
                (splice(input, p, p + enc.len(), &enc), 0)
            } else {
                // insertion grows the column: keep the metadata consistent by growing its length field too
                (splice(input, p, p, &enc), enc.len() as isize)
            };
            let spec = if let FieldKind::ColData(s) = f.kind { s } else { 0 };
            let (b, extra) = if delta != 0 { fix_col_len(&b, &fields, f, delta) } else { (b, 0) };
            (finish(b, delta + extra, m.fix_checksum), format!("chunk {ci} type {}: LEB {v} written at {p} inside column spec {spec}", c.typ))
        }
        MutClass::ColumnSplice => {
            let cols: Vec<&Field> = fields.iter().filter(|f| matches!(f.kind, FieldKind::ColData(_))).collect();
            if cols.is_empty() {
                return generic(&mut rng, MutClass::BitFlip);
            }
            let f = cols[rng.usize(cols.len())];
            let old = &input[f.start..f.end];
            let newd: Vec<u8> = match rng.below(5) {
                0 => rng.bytes(old.len()),
                1 => old[..old.len() / 2].to_vec(),
                2 => [old, old].concat(),
                3 => {
                    let g = cols[rng.usize(cols.len())];
                    input[g.start..g.end].to_vec()
                }
                _ => {
                    let mut v = old.to_vec();
                    v.reverse();
                    v
                }
            };
            let delta = newd.len() as isize - old.len() as isize;
            let b = splice(input, f.start, f.end, &newd);
            let keep_meta = rng.chance(300);
            let spec = if let FieldKind::ColData(s) = f.kind { s } else { 0 };
            let (b, extra) = if delta != 0 && !keep_meta { fix_col_len(&b, &fields, f, delta) } else { (b, 0) };
            (finish(b, delta + extra, m.fix_checksum), format!("chunk {ci} type {}: column spec {spec} data replaced ({} -> {} bytes, metadata {})", c.typ, old.len(), newd.len(), if keep_meta { "stale" } else { "updated" }))
        }
        MutClass::SpecMutate => {
            let specs: Vec<&Field> = fields.iter().filter(|f| f.kind == FieldKind::Spec).collect();
            if specs.is_empty() {
                return generic(&mut rng, MutClass::BitFlip);
            }
            let f = specs[rng.usize(specs.len())];
            let old = read_uleb(input, f.start).map(|x| x.0).unwrap_or(0);
            let v = match rng.below(5) {
                0 => old ^ 0x8,                       // deflate bit
                1 => (old & !7) | rng.below(8),       // retype
                2 => old.wrapping_add(16),            // next column id
                3 => specs.get(rng.usize(specs.len())).and_then(|g| read_uleb(input, g.start)).map(|x| x.0).unwrap_or(0), // duplicate
                _ => old.wrapping_sub(16),
            };
            let mut enc = Vec::new();
            write_uleb(v, &mut enc);
            let b = splice(input, f.start, f.end, &enc);
            let delta = enc.len() as isize - (f.end - f.start) as isize;
            (finish(b, delta, m.fix_checksum), format!("chunk {ci} type {}: column spec {old} -> {v}", c.typ))
        }
        MutClass::Utf8Poison => {
            // string columns (type 5), value-raw columns (type 7), the commit message
            let mut targets: Vec<(usize, usize, String)> = Vec::new();
            for f in &fields {
                match &f.kind {
                    FieldKind::ColData(s) if s & 7 == 5 && s & 8 == 0 => {
                        for (a, e) in string_payloads(input, f.start, f.end) {
                            targets.push((a, e, format!("string column spec {s}")));
                        }
                    }
                    FieldKind::ColData(s) if s & 7 == 7 && s & 8 == 0 && f.end > f.start => targets.push((f.start, f.end, format!("raw value column spec {s}"))),
                    FieldKind::Str if f.end > f.start => targets.push((f.start, f.end, f.name.to_string())),
                    _ => {}
                }
            }
            if targets.is_empty() {
                return generic(&mut rng, MutClass::BitFlip);
            }
            let (a, e, what) = targets[rng.usize(targets.len())].clone();
            let bad: &[u8] = rng.pick(&BAD_UTF8);
            let mut b = input.to_vec();
            // overwrite in place, keeping lengths intact, so that only the UTF-8 validity changes
            let p = a + rng.usize(e - a);
            for (i, x) in bad.iter().enumerate() {
                if p + i < e {
                    b[p + i] = *x;
                }
            }
            (finish(b, 0, m.fix_checksum), format!("chunk {ci} type {}: invalid UTF-8 {:02x?} written at {p} in {what}", c.typ, bad))
        }
        MutClass::Coherent => {
            // the count field named "heads"/"deps", the 32-byte hash fields that follow it, and (documents) the trailing indexes
            let ci_count = fields.iter().position(|f| f.kind == FieldKind::Count && (f.name == "heads" || f.name == "deps"));
            let Some(cpos) = ci_count else { return generic(&mut rng, MutClass::BitFlip) };
            let hashes: Vec<&Field> = fields[cpos + 1..].iter().take_while(|f| f.name == "hash").collect();
            let idxs: Vec<&Field> = fields.iter().filter(|f| f.name == "head_index").collect();
            let n = hashes.len();
            if n == 0 {
                return generic(&mut rng, MutClass::BitFlip);
            }
            let k = rng.usize(n);
            let drop = n >= 1 && rng.chance(700);
            let mut b = input.to_vec();
            let mut delta: isize = 0;
            // work back to front so that earlier offsets stay valid
            if let Some(ix) = idxs.get(k) {
                if idxs.len() == n {
                    if drop {
                        b = splice(&b, ix.start, ix.end, &[]);
                        delta -= (ix.end - ix.start) as isize;
                    } else {
                        let dup = b[ix.start..ix.end].to_vec();
                        b = splice(&b, ix.end, ix.end, &dup);
                        delta += dup.len() as isize;
                    }
                }
            }
            let h = hashes[k];
            if drop {
                b = splice(&b, h.start, h.end, &[]);
                delta -= 32;
            } else {
                let dup = b[h.start..h.end].to_vec();
                b = splice(&b, h.end, h.end, &dup);
                delta += 32;
            }
            let cf = &fields[cpos];
            let mut enc = Vec::new();
            write_uleb(if drop { n as u64 - 1 } else { n as u64 + 1 }, &mut enc);
            b = splice(&b, cf.start, cf.end, &enc);
            delta += enc.len() as isize - (cf.end - cf.start) as isize;
            (finish(b, delta, true), format!("chunk {ci} type {}: {} {} {k} of {n}", c.typ, if drop { "dropped" } else { "duplicated" }, if cf.name == "heads" { "head" } else { "dep" }))
        }
        _ => generic(&mut rng, m.class),
    }
}

/// grow/shrink the metadata length of the column whose data field is `f` by `delta`
/// (the k-th column-data field belongs to the k-th column-length field); returns the buffer and the size change
/// of the length field itself
fn fix_col_len(b: &[u8], fields: &[Field], f: &Field, delta: isize) -> (Vec<u8>, isize) {
    let datas: Vec<&Field> = fields.iter().filter(|x| matches!(x.kind, FieldKind::ColData(_))).collect();
    let lens: Vec<&Field> = fields.iter().filter(|x| x.kind == FieldKind::ColLen).collect();
    let k = match datas.iter().position(|x| x.start == f.start && x.end == f.end) {
        Some(k) if k < lens.len() => k,
        _ => return (b.to_vec(), 0),
    };
    let lf = lens[k];
    let old = read_uleb(b, lf.start).map(|x| x.0).unwrap_or(0);
    let new = (old as i128 + delta as i128).max(0) as u64;
    let mut enc = Vec::new();
    write_uleb(new, &mut enc);
    let out = splice(b, lf.start, lf.end, &enc);
    (out, enc.len() as isize - (lf.end - lf.start) as isize)
}

/// mutate an encoded sync message
pub fn mutate_sync(input: &[u8], m: Mutation) -> (Vec<u8>, String) {
    let mut rng = Rng::new(m.seed as u64 ^ 0x5A5A_1111);
    if input.is_empty() {
        return (rng.bytes(4), "garbage".into());
    }
    let fields = sync_fields(input);
    let mut b = input.to_vec();
    if m.class == MutClass::Coherent && rng.bool() {
        // a well-formed first message of a peer that has nothing and speaks the original protocol version: no heads, nothing
        // needed, one `have` with an empty filter, no changes, no trailing flags. Any old client sends exactly this; the
        // receiver answers from its whole history without the "send the document instead" shortcut of the newer version.
        return (vec![0x42, 0, 0, 1, 0, 0, 0], "legacy empty-peer message".into());
    }
    match m.class {
        MutClass::FieldExtreme | MutClass::SpecMutate | MutClass::ColumnSplice | MutClass::Coherent => {
            let cands: Vec<&Field> = fields.iter().filter(|f| matches!(f.kind, FieldKind::Count | FieldKind::Len | FieldKind::Num)).collect();
            if cands.is_empty() {
                let p = rng.usize(b.len());
                b[p] ^= 1 << rng.below(8);
                return (b, format!("flip in byte {p}"));
            }
            // bias towards the bloom parameters
            let blooms: Vec<&&Field> = cands.iter().filter(|f| f.name.starts_with("bloom_")).collect();
            let f: &Field = if !blooms.is_empty() && rng.chance(600) { blooms[rng.usize(blooms.len())] } else { cands[rng.usize(cands.len())] };
            let old = read_uleb(input, f.start).map(|x| x.0).unwrap_or(0);
            let v = match rng.below(4) {
                0 => old.wrapping_add(1),
                1 => 0,
                _ => *rng.pickv(&EXTREMES),
            };
            let mut enc = Vec::new();
            write_uleb(v, &mut enc);
            let mut out = splice(input, f.start, f.end, &enc);
            // keep the enclosing bloom length prefix consistent so that the parameter itself is what gets tested
            if f.name.starts_with("bloom_") && f.name != "bloom_len" {
                if let Some(bl) = fields.iter().rev().find(|x| x.name == "bloom_len" && x.start < f.start) {
                    let oldl = read_uleb(input, bl.start).map(|x| x.0).unwrap_or(0);
                    let newl = (oldl as i64 + enc.len() as i64 - (f.end - f.start) as i64).max(0) as u64;
                    let mut e2 = Vec::new();
                    write_uleb(newl, &mut e2);
                    out = splice(&out, bl.start, bl.end, &e2);
                }
            }
            (out, format!("sync field {} {} -> {}", f.name, old, v))
        }
        MutClass::Truncate => {
            let p = rng.usize(b.len());
            b.truncate(p);
            (b, format!("truncate at {p}"))
        }
        MutClass::Extend => {
            let n = 1 + rng.usize(8);
            let extra = rng.bytes(n);
            b.extend_from_slice(&extra);
            (b, format!("append {n} bytes"))
        }
        MutClass::Garbage => {
            let n = 1 + rng.usize(40);
            let mut g = rng.bytes(n);
            g[0] = if rng.bool() { 0x42 } else { 0x43 };
            (g, "random bytes with a sync header".into())
        }
        MutClass::DataLeb | MutClass::Utf8Poison => {
            // mutate one embedded change chunk structurally, keeping the length prefix right
            let chs: Vec<usize> = fields.iter().enumerate().filter(|(_, f)| f.name == "change").map(|(i, _)| i).collect();
            if chs.is_empty() {
                let p = rng.usize(b.len());
                b[p] ^= 1 << rng.below(8);
                return (b, format!("flip in byte {p}"));
            }
            let fi = chs[rng.usize(chs.len())];
            let f = &fields[fi];
            let lf = &fields[fi - 1];
            let (mc, d) = mutate_chunks(&input[f.start..f.end], Mutation { class: if rng.bool() { m.class } else { MutClass::FieldExtreme }, seed: m.seed.wrapping_mul(31), fix_checksum: m.fix_checksum });
            let mut enc = Vec::new();
            write_uleb(mc.len() as u64, &mut enc);
            let mut out = input[..lf.start].to_vec();
            out.extend_from_slice(&enc);
            out.extend_from_slice(&mc);
            out.extend_from_slice(&input[f.end..]);
            (out, format!("embedded change: {d}"))
        }
        MutClass::ByteSet => {
            let p = rng.usize(b.len());
            let v = *rng.pickv(&[0u8, 0x7f, 0x80, 0xff, 0x01]);
            b[p] = v;
            (b, format!("byte {p} := {v:#04x}"))
        }
        MutClass::BitFlip => {
            let p = rng.usize(b.len());
            let bit = rng.below(8) as u8;
            b[p] ^= 1 << bit;
            (b, format!("flip bit {bit} of byte {p}"))
        }
    }
}

/// mutate a short id-like byte string or text (cursor / object id / actor / hash encodings)
pub fn mutate_small(input: &[u8], m: Mutation) -> Vec<u8> {
    let mut rng = Rng::new(m.seed as u64 ^ 0x1D1D);
    let mut b = input.to_vec();
    match rng.below(7) {
        0 => vec![],
        1 => {
            if !b.is_empty() {
                let p = rng.usize(b.len());
                b.truncate(p);
            }
            b
        }
        2 => {
            if !b.is_empty() {
                let p = rng.usize(b.len());
                b[p] ^= 1 << rng.below(8);
            }
            b
        }
        3 => {
            let n = rng.usize(6);
            rng.bytes(n)
        }
        4 => {
            if !b.is_empty() {
                let p = rng.usize(b.len());
                let mut enc = Vec::new();
                write_uleb(*rng.pickv(&EXTREMES), &mut enc);
                b = splice(&b, p, (p + 1).min(b.len()), &enc);
            }
            b
        }
        5 => {
            let extra = rng.bytes(3);
            b.extend_from_slice(&extra);
            b
        }
        _ => {
            if !b.is_empty() {
                let p = rng.usize(b.len());
                b[p] = *rng.pickv(&[0u8, 0xff, 0x80, b'@', 0xc3]);
            }
            b
        }
    }
}

/// compact, digit-free tag of a mutation: class + chunk type it landed in (from the description)
pub fn tag_of(class: MutClass, desc: &str) -> String {
    let t = desc.find("type ").and_then(|i| desc[i + 5..].chars().next()).map(|c| match c {
        '0' => "doc",
        '1' => "change",
        '2' => "zchange",
        '3' => "bundle",
        _ => "other",
    });
    format!("{:?}:{}", class, t.unwrap_or("raw"))
}
