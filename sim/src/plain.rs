//! Plain (winners-only) values: the shape serde export and hydrate produce, derived from an R1/R2 tree.

use crate::model::*;
use std::collections::BTreeMap;

#[derive(Clone, Debug, PartialEq)]
pub enum Plain {
    Scalar(Sv),
    Map(BTreeMap<String, Plain>),
    List(Vec<Plain>),
    Text(String),
}

pub fn of_tree(t: &Tree) -> Plain {
    let val = |v: &Val| match v {
        Val::Scalar(s) => Plain::Scalar(s.clone()),
        Val::Obj(t) => of_tree(t),
    };
    match t {
        Tree::Map(_, m) => Plain::Map(m.iter().filter_map(|(k, r)| r.winner().map(|(_, v)| (k.clone(), val(v)))).collect()),
        Tree::List(l) => Plain::List(l.iter().filter_map(|r| r.winner().map(|(_, v)| val(v))).collect()),
        Tree::Text(t) => Plain::Text(t.text.clone()),
    }
}

pub fn of_hydrate(v: &automerge::hydrate::Value) -> Plain {
    use automerge::hydrate::Value as H;
    match v {
        H::Scalar(s) => Plain::Scalar(Sv::from_am(s)),
        H::Map(m) => Plain::Map(m.iter().map(|(k, mv)| (k.clone(), of_hydrate(&mv.value))).collect()),
        H::List(l) => Plain::List(l.iter().map(|lv| of_hydrate(&lv.value)).collect()),
        H::Text(t) => Plain::Text(t.to_string()),
    }
}

/// conflict flags as hydrate reports them: path -> conflict
pub fn hydrate_conflicts(v: &automerge::hydrate::Value, path: &str, out: &mut BTreeMap<String, bool>) {
    use automerge::hydrate::Value as H;
    match v {
        H::Map(m) => {
            for (k, mv) in m.iter() {
                let p = format!("{path}/{k}");
                out.insert(p.clone(), mv.conflict);
                hydrate_conflicts(&mv.value, &p, out);
            }
        }
        H::List(l) => {
            for (i, lv) in l.iter().enumerate() {
                let p = format!("{path}/{i}");
                out.insert(p.clone(), lv.conflict);
                hydrate_conflicts(&lv.value, &p, out);
            }
        }
        _ => {}
    }
}

pub fn tree_conflicts(t: &Tree, path: &str, out: &mut BTreeMap<String, bool>) {
    let mut visit = |p: String, r: &Reg, out: &mut BTreeMap<String, bool>| {
        out.insert(p.clone(), r.conflict());
        if let Some((_, Val::Obj(t))) = r.winner() {
            tree_conflicts(t, &p, out);
        }
    };
    match t {
        Tree::Map(_, m) => {
            for (k, r) in m {
                visit(format!("{path}/{k}"), r, out);
            }
        }
        Tree::List(l) => {
            for (i, r) in l.iter().enumerate() {
                visit(format!("{path}/{i}"), r, out);
            }
        }
        Tree::Text(_) => {}
    }
}

pub fn to_json(p: &Plain) -> serde_json::Value {
    use serde_json::Value as J;
    match p {
        Plain::Scalar(s) => match s {
            Sv::Null => J::Null,
            Sv::Bool(b) => J::Bool(*b),
            Sv::Int(i) => J::from(*i),
            Sv::Uint(u) => J::from(*u),
            Sv::F64(f) => serde_json::Number::from_f64(f64::from_bits(*f)).map(J::Number).unwrap_or(J::Null),
            Sv::Str(s) => J::String(s.clone()),
            Sv::Bytes(b) => J::Array(b.iter().map(|x| J::from(*x)).collect()),
            Sv::Counter(c) => J::from(*c),
            Sv::Ts(t) => J::from(*t),
            Sv::Unknown(_, _) => J::Null,
        },
        Plain::Map(m) => J::Object(m.iter().map(|(k, v)| (k.clone(), to_json(v))).collect()),
        Plain::List(l) => J::Array(l.iter().map(to_json).collect()),
        Plain::Text(s) => J::String(s.clone()),
    }
}

pub fn plain_diff(a: &Plain, b: &Plain, path: &str) -> Option<String> {
    match (a, b) {
        (Plain::Map(x), Plain::Map(y)) => {
            let kx: Vec<_> = x.keys().collect();
            let ky: Vec<_> = y.keys().collect();
            if kx != ky {
                return Some(format!("{path}: keys {kx:?} vs {ky:?}"));
            }
            for (k, v) in x {
                if let Some(d) = plain_diff(v, &y[k], &format!("{path}/{k}")) {
                    return Some(d);
                }
            }
            None
        }
        (Plain::List(x), Plain::List(y)) => {
            if x.len() != y.len() {
                return Some(format!("{path}: length {} vs {}", x.len(), y.len()));
            }
            for (i, v) in x.iter().enumerate() {
                if let Some(d) = plain_diff(v, &y[i], &format!("{path}/{i}")) {
                    return Some(d);
                }
            }
            None
        }
        (x, y) if x == y => None,
        (x, y) => Some(format!("{path}: {x:?} vs {y:?}").chars().take(300).collect()),
    }
}
