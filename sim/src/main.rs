//! amsim — deterministic simulation with fault injection for automerge.
//!
//! `amsim check`   orchestrator: spawns single-threaded worker processes, aggregates, writes evidence
//! `amsim worker`  executes a stripe of run indices
//! `amsim replay`  re-executes a replay file in a fresh process
//! `amsim log`     prints one digest line per run (determinism proof)

mod chunks;
mod events;
mod gen;
mod model;
mod mutate;
mod monitor;
mod observe;
mod patchview;
mod plain;
mod prng;
mod props;
mod run;
mod world;

use run::*;
use serde_json::{json, Value as J};
use std::collections::{BTreeMap, BTreeSet};
use std::io::{BufRead, Write};
use std::time::Instant;

#[global_allocator]
static GLOBAL: monitor::Counting = monitor::Counting;

fn arg<'a>(args: &'a [String], name: &str) -> Option<&'a str> {
    args.iter().position(|a| a == name).and_then(|i| args.get(i + 1)).map(|s| s.as_str())
}

fn salt_of(id: &str) -> u64 {
    let mut f = prng::Fnv::new();
    f.str(id);
    f.finish()
}

#[derive(serde::Deserialize, Clone, Debug)]
struct KnownFinding {
    property: String,
    status: String,
    signature: String,
    #[serde(default)]
    oracle: Option<String>,
    #[serde(default)]
    prefix: bool,
    #[serde(default)]
    what: String,
}

fn load_known() -> Vec<KnownFinding> {
    let p = verif_dir().join("known_findings.json");
    match std::fs::read_to_string(&p) {
        Ok(s) => match serde_json::from_str::<Vec<KnownFinding>>(&s) {
            Ok(v) => v,
            Err(e) => {
                eprintln!("harness error: cannot parse {}: {e}", p.display());
                std::process::exit(2);
            }
        },
        Err(_) => vec![],
    }
}

fn known_match<'a>(known: &'a [KnownFinding], v: &world::Violation) -> Option<&'a KnownFinding> {
    known.iter().find(|k| {
        k.status == "known"
            && k.property == v.property
            && k.oracle.as_ref().map(|o| *o == v.oracle).unwrap_or(true)
            && if k.prefix { v.signature.starts_with(&k.signature) } else { v.signature == k.signature }
    })
}

/// `no_panic_in_run` (a library panic during an honest run of another property): is this panic one of C37's recorded findings?
fn panic_recorded_under_c37(known: &[KnownFinding], signature: &str) -> bool {
    known.iter().any(|k| {
        k.status == "known"
            && k.property == "C37"
            && k.oracle.as_deref().map(|o| o == "no_panic").unwrap_or(true)
            && if k.prefix { signature.starts_with(&k.signature) } else { signature == k.signature }
    })
}

static RUN_STARTED_MS: std::sync::atomic::AtomicU64 = std::sync::atomic::AtomicU64::new(0);
static RUN_IDX: std::sync::atomic::AtomicU64 = std::sync::atomic::AtomicU64::new(0);
static RUN_SEED: std::sync::atomic::AtomicU64 = std::sync::atomic::AtomicU64::new(0);
/// wall-clock limit of one run (generation excluded); three to five orders of magnitude above what any run takes
const HANG_LIMIT_MS: u64 = 120_000;

fn verif_dir() -> std::path::PathBuf {
    std::env::var("VERIF_DIR").map(std::path::PathBuf::from).unwrap_or_else(|_| "/verif".into())
}

fn main() {
    let args: Vec<String> = std::env::args().collect();
    if args.len() < 2 {
        eprintln!("usage: amsim check|worker|replay|log|list ...");
        std::process::exit(2);
    }
    monitor::install_panic_hook();
    match args[1].as_str() {
        "check" => cmd_check(&args[2..]),
        "worker" => cmd_worker(&args[2..]),
        "replay" => cmd_replay(&args[2..]),
        "log" => cmd_log(&args[2..]),
        "explain" => cmd_explain(&args[2..]),
        "list" => {
            for p in props::all() {
                println!("{} {} quick={} thorough={}", p.id, p.title, p.quick_runs, p.quick_runs * 6);
            }
        }
        _ => {
            eprintln!("unknown command");
            std::process::exit(2);
        }
    }
}

fn abbreviate(cfg: &events::Cfg, evs: &[events::Ev]) -> J {
    let mut list: Vec<String> = evs.iter().take(40).map(|e| format!("{e:?}")).collect();
    if evs.len() > 40 {
        list.push(format!("… {} more events", evs.len() - 40));
    }
    json!({"replicas": cfg.replicas, "encoding": format!("{:?}", cfg.enc), "events": evs.len(), "schedule": list})
}

// ------------------------------------------------------------------------------------------------

fn cmd_worker(args: &[String]) {
    let pid = arg(args, "--property").expect("--property");
    let prop = props::find(pid).unwrap_or_else(|| {
        eprintln!("unknown property {pid}");
        std::process::exit(2)
    });
    let seed: u64 = arg(args, "--seed").and_then(|s| s.parse().ok()).unwrap_or(1);
    let offset: u64 = arg(args, "--offset").and_then(|s| s.parse().ok()).unwrap_or(0);
    let stride: u64 = arg(args, "--stride").and_then(|s| s.parse().ok()).unwrap_or(1);
    let runs: u64 = arg(args, "--runs").and_then(|s| s.parse().ok()).unwrap_or(100);
    let deadline: f64 = arg(args, "--deadline-secs").and_then(|s| s.parse().ok()).unwrap_or(1e9);
    let announce = args.iter().any(|a| a == "--announce");
    let known = load_known();
    let profile = (prop.profile)();
    let salt = salt_of(prop.id);
    let t0 = Instant::now();
    let out = std::io::stdout();
    let mut stats = world::Stats::default();
    let mut digests: BTreeSet<u64> = BTreeSet::new();
    let mut interleavings: BTreeSet<u64> = BTreeSet::new();
    let mut states: BTreeSet<u64> = BTreeSet::new();
    let (mut evaluations, mut steps, mut discarded, mut clock_span) = (0u64, 0u64, 0u64, 0i64);
    let mut discarded_sigs: BTreeMap<String, u64> = BTreeMap::new();
    let mut known_hits: BTreeMap<String, u64> = BTreeMap::new();
    let mut unknown: Vec<J> = Vec::new();
    let mut unknown_sigs: BTreeSet<String> = BTreeSet::new();
    let mut samples: Vec<J> = Vec::new();
    let mut harness_error: Option<String> = None;
    // liveness of a single run: no run of any property comes near HANG_LIMIT_MS (they take milliseconds, the enumerations a
    // second or two); a run that exceeds it is reported as a violation of its own ("terminates") instead of hanging the check
    {
        let t0 = t0;
        std::thread::spawn(move || loop {
            std::thread::sleep(std::time::Duration::from_millis(500));
            let started = RUN_STARTED_MS.load(std::sync::atomic::Ordering::SeqCst);
            if started != 0 && (t0.elapsed().as_millis() as u64).saturating_sub(started) > HANG_LIMIT_MS {
                let o = std::io::stdout();
                let mut o = o.lock();
                let _ = writeln!(
                    o,
                    "{}",
                    json!({"t":"hang","run":RUN_IDX.load(std::sync::atomic::Ordering::SeqCst),"run_seed":RUN_SEED.load(std::sync::atomic::Ordering::SeqCst)})
                );
                let _ = o.flush();
                std::process::exit(98);
            }
        });
    }
    let mut idx = offset;
    while idx < runs {
        if t0.elapsed().as_secs_f64() > deadline {
            break;
        }
        let run_seed = prng::derive_seed(seed, salt, idx);
        RUN_IDX.store(idx, std::sync::atomic::Ordering::SeqCst);
        RUN_SEED.store(run_seed, std::sync::atomic::Ordering::SeqCst);
        RUN_STARTED_MS.store((t0.elapsed().as_millis() as u64).max(1), std::sync::atomic::Ordering::SeqCst);
        if announce {
            let mut o = out.lock();
            let _ = writeln!(o, "{}", json!({"t":"start","run":idx,"run_seed":run_seed}));
            let _ = o.flush();
        }
        let (cfg, evs) = gen::gen_run(run_seed, &profile);
        let rep = execute_safe(&prop, run_seed, &cfg, &evs);
        RUN_STARTED_MS.store(0, std::sync::atomic::Ordering::SeqCst);
        evaluations += 1;
        steps += rep.steps;
        clock_span += rep.clock_span.max(0);
        stats.merge(&rep.stats);
        interleavings.insert(rep.interleaving);
        states.insert(rep.state_digest);
        match &rep.verdict {
            Verdict::Held => {
                if let Some(d) = rep.nontrivial {
                    digests.insert(d);
                    if samples.len() < 2 && offset == 0 {
                        samples.push(abbreviate(&cfg, &evs));
                    }
                }
            }
            Verdict::DiscardedPanic(p) => {
                discarded += 1;
                *discarded_sigs.entry(p.signature()).or_insert(0) += 1;
            }
            Verdict::HarnessError(e) => {
                harness_error = Some(format!("run {idx} (run_seed {run_seed}): {e}"));
                break;
            }
            Verdict::Violation(v) if v.oracle == "no_panic_in_run" && panic_recorded_under_c37(&known, &v.signature) => {
                // a panic C37 already lists as a known finding: set aside as before (counted, NOTE), not re-reported here
                discarded += 1;
                *discarded_sigs.entry(v.signature.clone()).or_insert(0) += 1;
            }
            Verdict::Violation(v) => {
                if let Some(k) = known_match(&known, v) {
                    *known_hits.entry(k.signature.clone()).or_insert(0) += 1;
                } else if unknown_sigs.insert(format!("{}|{}", v.oracle, v.signature)) {
                    let (min_evs, min_v, tried) = shrink(&prop, run_seed, &cfg, &evs, v, 1500);
                    let rf = ReplayFile {
                        property: prop.id.to_string(),
                        engine_version: ENGINE_VERSION,
                        run_seed,
                        cfg: cfg.clone(),
                        events: min_evs,
                        expected: min_v,
                        minimised: true,
                        original_events: evs.len(),
                    };
                    unknown.push(json!({"run": idx, "shrink_candidates": tried, "replay": rf}));
                    if unknown.len() >= 3 {
                        break;
                    }
                }
            }
        }
        idx += stride;
    }
    let mut o = out.lock();
    let _ = writeln!(
        o,
        "{}",
        json!({
            "t": "done",
            "evaluations": evaluations,
            "steps": steps,
            "clock_span": clock_span,
            "discarded": discarded,
            "discarded_sigs": discarded_sigs,
            "known_hits": known_hits,
            "unknown": unknown,
            "stats": stats.counters,
            "digests": digests.iter().collect::<Vec<_>>(),
            "interleavings": interleavings.len(),
            "interleaving_set": interleavings.iter().collect::<Vec<_>>(),
            "state_set": states.iter().collect::<Vec<_>>(),
            "samples": samples,
            "harness_error": harness_error,
            "wall_s": t0.elapsed().as_secs_f64(),
        })
    );
    let _ = o.flush();
}

// ------------------------------------------------------------------------------------------------

fn cmd_check(args: &[String]) {
    let pid = arg(args, "--property").expect("--property");
    let prop = props::find(pid).unwrap_or_else(|| {
        eprintln!("unknown property {pid}");
        std::process::exit(2)
    });
    let tier = arg(args, "--tier")
        .map(|s| s.to_string())
        .or_else(|| std::env::var("VERIF_TIER").ok())
        .unwrap_or_else(|| "quick".into());
    let tier = if tier == "thorough" { "thorough" } else { "quick" };
    let seed: u64 = arg(args, "--seed")
        .map(|s| s.to_string())
        .or_else(|| std::env::var("VERIF_SEED").ok())
        .and_then(|s| s.parse().ok())
        .unwrap_or(1);
    let runs: u64 = arg(args, "--runs")
        .and_then(|s| s.parse().ok())
        // thorough = the same generator and oracles over six times the quick tier's run indexes (0..6n contains the quick
        // tier's 0..n), so a clean thorough run at a seed implies a clean quick run at that seed
        .unwrap_or(if tier == "quick" { prop.quick_runs } else { prop.quick_runs * 6 });
    let workers: u64 = arg(args, "--workers")
        .and_then(|s| s.parse().ok())
        .unwrap_or_else(|| std::thread::available_parallelism().map(|n| n.get() as u64).unwrap_or(4).min(16));
    let deadline: f64 = arg(args, "--deadline-secs")
        .and_then(|s| s.parse().ok())
        .unwrap_or(if tier == "quick" { 150.0 } else { 900.0 });
    let known = load_known();
    let exe = std::env::current_exe().expect("current_exe");
    let t0 = Instant::now();
    let mut children = Vec::new();
    for k in 0..workers {
        let child = std::process::Command::new(&exe)
            .args([
                "worker",
                "--property",
                prop.id,
                "--seed",
                &seed.to_string(),
                "--offset",
                &k.to_string(),
                "--stride",
                &workers.to_string(),
                "--runs",
                &runs.to_string(),
                "--deadline-secs",
                &deadline.to_string(),
            ])
            .stdout(std::process::Stdio::piped())
            .stderr(std::process::Stdio::inherit())
            .spawn()
            .expect("spawn worker");
        children.push(child);
    }
    let mut handles = Vec::new();
    for mut c in children {
        handles.push(std::thread::spawn(move || {
            let so = c.stdout.take().unwrap();
            let mut last_start: Option<J> = None;
            let mut done: Option<J> = None;
            let mut hang: Option<J> = None;
            for line in std::io::BufReader::new(so).lines().map_while(Result::ok) {
                if let Ok(j) = serde_json::from_str::<J>(&line) {
                    match j["t"].as_str() {
                        Some("start") => last_start = Some(j),
                        Some("done") => done = Some(j),
                        Some("hang") => hang = Some(j),
                        _ => {}
                    }
                }
            }
            let status = c.wait().ok();
            (done, last_start, status, hang)
        }));
    }
    let mut evaluations = 0u64;
    let mut steps = 0u64;
    let mut clock_span = 0i64;
    let mut discarded = 0u64;
    let mut discarded_sigs: BTreeMap<String, u64> = BTreeMap::new();
    let mut known_hits: BTreeMap<String, u64> = BTreeMap::new();
    let mut unknown: Vec<J> = Vec::new();
    let mut stats: BTreeMap<String, u64> = BTreeMap::new();
    let mut digests: BTreeSet<u64> = BTreeSet::new();
    let mut inter: BTreeSet<u64> = BTreeSet::new();
    let mut states: BTreeSet<u64> = BTreeSet::new();
    let mut samples: Vec<J> = Vec::new();
    let mut harness_errors: Vec<String> = Vec::new();
    let mut hangs: Vec<J> = Vec::new();
    for h in handles {
        let (done, last_start, status, hang) = h.join().expect("join");
        if let Some(hj) = hang {
            hangs.push(hj);
            continue;
        }
        match done {
            Some(d) => {
                evaluations += d["evaluations"].as_u64().unwrap_or(0);
                steps += d["steps"].as_u64().unwrap_or(0);
                clock_span += d["clock_span"].as_i64().unwrap_or(0);
                discarded += d["discarded"].as_u64().unwrap_or(0);
                for (k, v) in d["discarded_sigs"].as_object().into_iter().flatten() {
                    *discarded_sigs.entry(k.clone()).or_insert(0) += v.as_u64().unwrap_or(0);
                }
                for (k, v) in d["known_hits"].as_object().into_iter().flatten() {
                    *known_hits.entry(k.clone()).or_insert(0) += v.as_u64().unwrap_or(0);
                }
                for (k, v) in d["stats"].as_object().into_iter().flatten() {
                    let e = stats.entry(k.clone()).or_insert(0);
                    if k.ends_with("_max") {
                        *e = (*e).max(v.as_u64().unwrap_or(0));
                    } else {
                        *e += v.as_u64().unwrap_or(0);
                    }
                }
                for u in d["unknown"].as_array().into_iter().flatten() {
                    unknown.push(u.clone());
                }
                for x in d["digests"].as_array().into_iter().flatten() {
                    digests.insert(x.as_u64().unwrap_or(0));
                }
                for x in d["interleaving_set"].as_array().into_iter().flatten() {
                    inter.insert(x.as_u64().unwrap_or(0));
                }
                for x in d["state_set"].as_array().into_iter().flatten() {
                    states.insert(x.as_u64().unwrap_or(0));
                }
                for s in d["samples"].as_array().into_iter().flatten() {
                    if samples.len() < 3 {
                        samples.push(s.clone());
                    }
                }
                if let Some(e) = d["harness_error"].as_str() {
                    harness_errors.push(e.to_string());
                }
            }
            None => {
                harness_errors.push(format!(
                    "worker died without a result (status {:?}, last announced run {:?})",
                    status, last_start
                ));
            }
        }
    }
    let wall = t0.elapsed().as_secs_f64();
    // write replay files for unknown violations
    let rdir = verif_dir().join("replays");
    let _ = std::fs::create_dir_all(&rdir);
    let mut violation_lines = Vec::new();
    let mut seen_sigs = BTreeSet::new();
    for u in &unknown {
        let rf = &u["replay"];
        let sig = format!("{}|{}", rf["expected"]["oracle"], rf["expected"]["signature"]);
        if !seen_sigs.insert(sig) {
            continue;
        }
        let path = rdir.join(format!("{}-{}.json", prop.id, rf["run_seed"]));
        if let Err(e) = std::fs::write(&path, serde_json::to_string_pretty(rf).unwrap()) {
            harness_errors.push(format!("cannot write replay file: {e}"));
            continue;
        }
        violation_lines.push((path, rf.clone()));
    }
    for hj in &hangs {
        let run_seed = hj["run_seed"].as_u64().unwrap_or(0);
        let (cfg, evs) = gen::gen_run(run_seed, &(prop.profile)());
        let rf = ReplayFile {
            property: prop.id.to_string(),
            engine_version: ENGINE_VERSION,
            run_seed,
            cfg,
            original_events: evs.len(),
            events: evs,
            expected: world::Violation {
                property: prop.id.to_string(),
                oracle: "terminates".into(),
                signature: "hang:run-exceeded-time-limit".into(),
                step: 0,
                detail: format!("run {} did not finish within {} s (runs take milliseconds); not minimised", hj["run"], HANG_LIMIT_MS / 1000),
            },
            minimised: false,
        };
        let path = rdir.join(format!("{}-{}.json", prop.id, run_seed));
        let v = serde_json::to_value(&rf).unwrap();
        if let Err(e) = std::fs::write(&path, serde_json::to_string_pretty(&v).unwrap()) {
            harness_errors.push(format!("cannot write replay file: {e}"));
            continue;
        }
        violation_lines.push((path, v));
    }
    // evidence
    let fault_fired: BTreeMap<&String, &u64> = stats.iter().filter(|(k, _)| k.starts_with("fault.")).collect();
    let probes: BTreeMap<&String, &u64> = stats.iter().filter(|(k, _)| k.starts_with("probe.")).collect();
    let stuck: Vec<&str> = prop.probes.iter().filter(|p| !stats.contains_key(**p)).cloned().collect();
    let events_fired: BTreeMap<&String, &u64> = stats.iter().filter(|(k, _)| k.starts_with("ev.")).collect();
    if samples.is_empty() {
        // always show what a case looks like, even when no run was non-trivial
        let run_seed = prng::derive_seed(seed, salt_of(prop.id), 0);
        let (cfg, evs) = gen::gen_run(run_seed, &(prop.profile)());
        samples.push(abbreviate(&cfg, &evs));
    }
    let evidence = json!({
        "property_id": prop.id,
        "tier": tier,
        "seed": seed,
        "level": prop.level,
        "coverage": {
            "evaluations": evaluations,
            "distinct_nontrivial": digests.len(),
            "rule": prop.rule,
            "samples": samples,
            "runs_requested": runs,
            "runs_per_hour": if wall > 0.0 { (evaluations as f64 / wall * 3600.0) as u64 } else { 0 },
            "seeds": format!("VERIF_SEED={seed}; run_seed = splitmix(VERIF_SEED, fnv({}), run_index) for run_index in 0..{runs}", prop.id),
            "simulated_steps": steps,
            "simulated_clock_span_s": clock_span,
            "faults_fired": fault_fired,
            "events_executed": events_fired,
            "reach_probes": probes,
            "probes_stuck_at_zero": stuck,
            "distinct_interleavings": inter.len(),
            "distinct_states": states.len(),
            "distinct_measure": "interleaving = FNV digest of the executed (event kind, replica) sequence; state = digest of every replica's final applied change-hash set",
            "runs_discarded_by_panic": discarded,
            "discarded_panic_signatures": discarded_sigs,
            "known_findings_hit": known_hits,
            "components": {
                "real": ["automerge (rust/automerge, feature verif_hooks)", "hexane (rust/hexane)"],
                "stub": ["network (in-memory queues)", "disk (byte vectors with durability flag)", "clock (integer per replica)", "randomness (xoshiro256** from VERIF_SEED; ActorId::random / anonymize via hooks H2/H3)", "clients (generated programs)"]
            },
            "workers": workers,
        },
        "assumptions": [
            "R2 trusts that the public read API is not wrong in the same way on every read path at once",
            "hash-map iteration order inside the library is shown (determinism proof), not forced, to be unobservable",
            "a clean batch is evidence over the sampled schedules and faults, not a proof"
        ],
        "wall_s": wall,
        "violations": violation_lines.len(),
    });
    let edir = verif_dir().join("evidence");
    let _ = std::fs::create_dir_all(&edir);
    let epath = edir.join(format!("{}.json", prop.id));
    if let Err(e) = std::fs::write(&epath, serde_json::to_string_pretty(&evidence).unwrap()) {
        harness_errors.push(format!("cannot write evidence: {e}"));
    }
    println!(
        "{} {}: {} runs, {} non-trivial distinct, {} steps, {:.1}s, discarded-by-panic {}",
        prop.id,
        tier,
        evaluations,
        digests.len(),
        steps,
        wall,
        discarded
    );
    for (sig, n) in &discarded_sigs {
        println!("NOTE: {n} run(s) discarded by library panic outside this property's scope: {sig}");
    }
    for p in &stuck {
        println!("WARNING: reach probe stuck at zero: {p}");
    }
    for k in &known {
        if k.status == "known" && k.property == prop.id {
            let n = known_hits.get(&k.signature).cloned().unwrap_or(0);
            println!("KNOWN-FINDING: property={} {} ({}; met {} time(s) in this run)", prop.id, k.signature, k.what, n);
        }
    }
    if !harness_errors.is_empty() {
        for e in &harness_errors {
            eprintln!("HARNESS ERROR: {e}");
        }
        std::process::exit(2);
    }
    if !violation_lines.is_empty() {
        for (path, rf) in &violation_lines {
            println!(
                "VIOLATION property={} replay={} oracle={} signature={} detail={}",
                prop.id,
                path.display(),
                rf["expected"]["oracle"].as_str().unwrap_or(""),
                rf["expected"]["signature"].as_str().unwrap_or(""),
                rf["expected"]["detail"].as_str().unwrap_or("")
            );
        }
        std::process::exit(1);
    }
    if evaluations == 0 {
        eprintln!("HARNESS ERROR: nothing was explored");
        std::process::exit(2);
    }
}

// ------------------------------------------------------------------------------------------------

fn cmd_replay(args: &[String]) {
    let path = args.first().expect("replay <path>");
    let s = std::fs::read_to_string(path).unwrap_or_else(|e| {
        eprintln!("cannot read {path}: {e}");
        std::process::exit(2)
    });
    let rf: ReplayFile = serde_json::from_str(&s).unwrap_or_else(|e| {
        eprintln!("cannot parse {path}: {e}");
        std::process::exit(2)
    });
    let prop = props::find(&rf.property).unwrap_or_else(|| {
        eprintln!("unknown property {}", rf.property);
        std::process::exit(2)
    });
    let mut prop = prop;
    let hang_expected = rf.expected.oracle == "terminates";
    if hang_expected {
        // re-run under the forked executor, whose watchdog ends a run that does not finish
        prop.abort_prone = true;
    }
    let rep = execute_safe(&prop, rf.run_seed, &rf.cfg, &rf.events);
    match rep.verdict {
        Verdict::Violation(v) => {
            println!("replayed: oracle={} signature={} step={}\n{}", v.oracle, v.signature, v.step, v.detail);
            if (v.oracle == rf.expected.oracle && v.signature == rf.expected.signature) || (hang_expected && v.signature.starts_with("abort:timeout")) {
                println!("VIOLATION property={} replay={}", rf.property, path);
                std::process::exit(1);
            } else {
                println!("a different violation than recorded (expected {} / {})", rf.expected.oracle, rf.expected.signature);
                std::process::exit(3);
            }
        }
        Verdict::Held => {
            println!("replay held: the recorded violation did not reproduce");
            std::process::exit(0);
        }
        Verdict::DiscardedPanic(p) => {
            println!("replay ended in a library panic outside the property's scope: {}", p.signature());
            std::process::exit(3);
        }
        Verdict::HarnessError(e) => {
            eprintln!("HARNESS ERROR: {e}");
            std::process::exit(2);
        }
    }
}

fn cmd_log(args: &[String]) {
    let pid = arg(args, "--property").expect("--property");
    let prop = props::find(pid).expect("property");
    let seed: u64 = arg(args, "--seed").and_then(|s| s.parse().ok()).unwrap_or(1);
    let from: u64 = arg(args, "--from").and_then(|s| s.parse().ok()).unwrap_or(0);
    let to: u64 = arg(args, "--to").and_then(|s| s.parse().ok()).unwrap_or(100);
    let profile = (prop.profile)();
    for idx in from..to {
        let run_seed = prng::derive_seed(seed, salt_of(prop.id), idx);
        let (cfg, evs) = gen::gen_run(run_seed, &profile);
        let rep = execute_safe(&prop, run_seed, &cfg, &evs);
        let v = match &rep.verdict {
            Verdict::Held => "held".to_string(),
            Verdict::Violation(v) => format!("violation:{}:{}:{}", v.oracle, v.signature, v.step),
            Verdict::DiscardedPanic(p) => format!("panic:{}", p.signature()),
            Verdict::HarnessError(e) => format!("harness:{e}"),
        };
        let mut st = prng::Fnv::new();
        for (k, n) in &rep.stats.counters {
            // allocator peak of the run: a measurement (like wall time), it moves by a few hundred bytes with the
            // library's RandomState hash maps; no oracle or schedule decision reads it
            if k.starts_with("meter.") {
                continue;
            }
            st.str(k);
            st.u64(*n);
        }
        if std::env::var_os("AMSIM_LOG_STATS").is_some() {
            eprintln!("{idx} {:?}", rep.stats.counters);
        }
        println!(
            "{idx} {run_seed:016x} steps={} inter={:016x} state={:016x} stats={:016x} nt={:?} {v}",
            rep.steps,
            rep.interleaving,
            rep.state_digest,
            st.finish(),
            rep.nontrivial
        );
    }
}

/// re-run one generated run with library panics treated as violations, shrink it and print the schedule
fn cmd_explain(args: &[String]) {
    let pid = arg(args, "--property").expect("--property");
    let mut prop = props::find(pid).expect("property");
    prop.panic_is_violation = true;
    let seed: u64 = arg(args, "--seed").and_then(|s| s.parse().ok()).unwrap_or(1);
    let idx: u64 = arg(args, "--run").and_then(|s| s.parse().ok()).unwrap_or(0);
    let run_seed = prng::derive_seed(seed, salt_of(prop.id), idx);
    let (cfg, evs) = gen::gen_run(run_seed, &(prop.profile)());
    let rep = execute_safe(&prop, run_seed, &cfg, &evs);
    match rep.verdict {
        Verdict::Violation(v) => {
            let (min, mv, tried) = shrink(&prop, run_seed, &cfg, &evs, &v, 3000);
            println!("{} events -> {} after {} candidates", evs.len(), min.len(), tried);
            println!("cfg: {}", serde_json::to_string(&cfg).unwrap());
            for e in &min {
                println!("  {}", serde_json::to_string(e).unwrap());
            }
            println!("oracle={} signature={} step={}\n{}", mv.oracle, mv.signature, mv.step, mv.detail);
            let rf = ReplayFile {
                property: prop.id.to_string(),
                engine_version: ENGINE_VERSION,
                run_seed,
                cfg,
                events: min,
                expected: mv,
                minimised: true,
                original_events: evs.len(),
            };
            let rdir = verif_dir().join("replays");
            let _ = std::fs::create_dir_all(&rdir);
            let path = rdir.join(format!("explain-{}-{}.json", prop.id, run_seed));
            std::fs::write(&path, serde_json::to_string_pretty(&rf).unwrap()).unwrap();
            println!("replay file: {}", path.display());
        }
        other => println!("{other:?}"),
    }
}
