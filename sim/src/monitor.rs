//! R7: panic capture (signature = file + message with digits normalised), execution context for
//! reports, and a counting global allocator with a hard cap (used by the resource-bound checks).

use std::alloc::{GlobalAlloc, Layout, System};
use std::cell::RefCell;
use std::sync::atomic::{AtomicUsize, Ordering};

#[derive(Clone, Debug, Default, serde::Serialize, serde::Deserialize)]
pub struct PanicInfo {
    pub file: String,
    pub line: u32,
    pub message: String,
    pub step: u64,
    pub context: String,
}

impl PanicInfo {
    /// stable signature: never contains line numbers or other digits
    pub fn signature(&self) -> String {
        let mut msg: String = String::new();
        let mut last_hash = false;
        // char literals and quoted strings carry input-specific content
        let mut cleaned = String::new();
        let mut in_sq = false;
        let mut in_dq = false;
        for ch in self.message.chars().take(200) {
            match ch {
                '\'' if !in_dq => {
                    in_sq = !in_sq;
                    cleaned.push('\'');
                }
                '"' if !in_sq => {
                    in_dq = !in_dq;
                    cleaned.push('"');
                }
                '`' => cleaned.push('`'),
                _ if in_sq || in_dq => {}
                _ => cleaned.push(ch),
            }
        }
        for ch in cleaned.chars().take(110) {
            if ch.is_ascii_digit() {
                if !last_hash {
                    msg.push('#');
                }
                last_hash = true;
            } else {
                msg.push(ch);
                last_hash = false;
            }
        }
        // hex blobs (actor ids, hashes) vary between runs: collapse long hex runs
        let mut out = String::new();
        let mut run = String::new();
        for ch in msg.chars() {
            if ch.is_ascii_hexdigit() || ch == '#' {
                run.push(ch);
            } else {
                if run.len() >= 8 {
                    out.push('#');
                } else {
                    out.push_str(&run);
                }
                run.clear();
                out.push(ch);
            }
        }
        if run.len() >= 8 {
            out.push('#');
        } else {
            out.push_str(&run);
        }
        let file = self.file.rsplit("/rust/").next().unwrap_or(&self.file).to_string();
        format!("panic:{}:{}", file, out.trim())
    }
    /// medium-grained identity used for adversarial-input properties: source file + kind of panic
    pub fn coarse_signature(&self) -> String {
        let file = self.file.rsplit("/rust/").next().unwrap_or(&self.file).to_string();
        let m = &self.message;
        let ident = |s: &str| -> String { s.chars().take_while(|c| c.is_ascii_alphanumeric() || *c == '_').collect() };
        let kind = if m.starts_with("called `Option::unwrap()`") {
            "unwrap-none".to_string()
        } else if let Some(rest) = m.strip_prefix("called `Result::unwrap()` on an `Err` value: ") {
            format!("unwrap-err-{}", ident(rest))
        } else if m.starts_with("index out of bounds") {
            "index-oob".to_string()
        } else if m.contains("out of range for slice") || m.contains("slice index starts at") || m.contains("is out of bounds of") || m.contains("is not a char boundary") {
            "slice-range".to_string()
        } else if m.starts_with("assertion") {
            "assert".to_string()
        } else if m.contains("overflow") {
            "overflow".to_string()
        } else if m.contains("divisor of zero") || m.contains("divide by zero") {
            "div-zero".to_string()
        } else {
            let w: Vec<String> = m.split_whitespace().take(3).map(|x| ident(x)).filter(|x| !x.is_empty()).collect();
            format!("msg-{}", w.join("-"))
        };
        format!("panic-in:{}:{}", file, kind)
    }
    pub fn is_harness(&self) -> bool {
        // the simulator is built from /verif/sim, so its own files are relative "src/..."
        self.file.starts_with("src/") || self.file.contains("/verif/sim/")
    }
}

thread_local! {
    static LAST_PANIC: RefCell<Option<PanicInfo>> = const { RefCell::new(None) };
    static CONTEXT: RefCell<(u64, &'static str)> = const { RefCell::new((0, "")) };
    static SUBCONTEXT: RefCell<String> = const { RefCell::new(String::new()) };
}

pub fn set_context(step: u64, what: &'static str) {
    CONTEXT.with(|c| *c.borrow_mut() = (step, what));
    SUBCONTEXT.with(|c| c.borrow_mut().clear());
    crate::run::publish_context(what);
}

pub fn set_subcontext(s: &str) {
    SUBCONTEXT.with(|c| {
        let mut b = c.borrow_mut();
        b.clear();
        b.push_str(s);
    });
    {
        let (_, what) = CONTEXT.with(|c| *c.borrow());
        let mut full = String::with_capacity(what.len() + 1 + s.len());
        full.push_str(what);
        full.push('/');
        full.push_str(s);
        crate::run::publish_context(&full);
    }
    // also keep a copy where the allocator can reach it without allocating (workers are single-threaded)
    unsafe {
        let n = s.len().min(CTX_CAP);
        let dst = std::ptr::addr_of_mut!(CTX_BUF) as *mut u8;
        std::ptr::copy_nonoverlapping(s.as_ptr(), dst, n);
        CTX_LEN.store(n, Ordering::Relaxed);
    }
}

const CTX_CAP: usize = 200;
static mut CTX_BUF: [u8; CTX_CAP] = [0; CTX_CAP];
static CTX_LEN: AtomicUsize = AtomicUsize::new(0);

pub fn install_panic_hook() {
    std::panic::set_hook(Box::new(|info| {
        let (file, line) = info
            .location()
            .map(|l| (l.file().to_string(), l.line()))
            .unwrap_or_default();
        let message = if let Some(s) = info.payload().downcast_ref::<&str>() {
            s.to_string()
        } else if let Some(s) = info.payload().downcast_ref::<String>() {
            s.clone()
        } else {
            "<non-string panic payload>".to_string()
        };
        let (step, what) = CONTEXT.with(|c| *c.borrow());
        let sub = SUBCONTEXT.with(|c| c.borrow().clone());
        LAST_PANIC.with(|p| {
            *p.borrow_mut() = Some(PanicInfo {
                file,
                line,
                message,
                step,
                context: if sub.is_empty() { what.to_string() } else { format!("{what}/{sub}") },
            })
        });
    }));
}

pub fn take_panic() -> Option<PanicInfo> {
    LAST_PANIC.with(|p| p.borrow_mut().take())
}

/// run `f`, catching a panic and returning its description
pub fn guarded<T>(f: impl FnOnce() -> T) -> Result<T, PanicInfo> {
    let _ = take_panic();
    match std::panic::catch_unwind(std::panic::AssertUnwindSafe(f)) {
        Ok(v) => Ok(v),
        Err(_) => Err(take_panic().unwrap_or_default()),
    }
}

// ------------------------------------------------------------------------------------------------
// counting allocator

pub struct Counting;

static CURRENT: AtomicUsize = AtomicUsize::new(0);
static PEAK: AtomicUsize = AtomicUsize::new(0);
static LARGEST: AtomicUsize = AtomicUsize::new(0);
/// hard cap on a single request and on the total; 0 = no cap
static CAP_SINGLE: AtomicUsize = AtomicUsize::new(0);
static CAP_TOTAL: AtomicUsize = AtomicUsize::new(0);
static METER_ON: AtomicUsize = AtomicUsize::new(0);

fn cap_exceeded(kind: &str, size: usize) -> ! {
    // deterministic marker the orchestrator looks for; then die without unwinding
    // no allocation allowed here: assemble the message in a stack buffer
    let mut buf = [0u8; 320];
    let mut n = 0usize;
    let mut put = |b: &[u8]| {
        for x in b {
            if n < buf.len() {
                buf[n] = *x;
                n += 1;
            }
        }
    };
    put(b"\nALLOC-CAP ");
    put(kind.as_bytes());
    put(b" ");
    let mut digits = [0u8; 20];
    let mut i = 20;
    let mut v = size;
    loop {
        i -= 1;
        digits[i] = b'0' + (v % 10) as u8;
        v /= 10;
        if v == 0 {
            break;
        }
    }
    put(&digits[i..]);
    put(b" ctx=");
    unsafe {
        let len = CTX_LEN.load(Ordering::Relaxed).min(CTX_CAP);
        let src = std::ptr::addr_of!(CTX_BUF) as *const u8;
        put(std::slice::from_raw_parts(src, len));
    }
    put(b"\n");
    unsafe {
        libc::write(1, buf.as_ptr() as *const libc::c_void, n);
        libc::_exit(97);
    }
}

unsafe impl GlobalAlloc for Counting {
    unsafe fn alloc(&self, layout: Layout) -> *mut u8 {
        if METER_ON.load(Ordering::Relaxed) != 0 {
            let size = layout.size();
            let cs = CAP_SINGLE.load(Ordering::Relaxed);
            if cs != 0 && size > cs {
                cap_exceeded("single", size);
            }
            let cur = CURRENT.fetch_add(size, Ordering::Relaxed) + size;
            let ct = CAP_TOTAL.load(Ordering::Relaxed);
            if ct != 0 && cur > ct {
                cap_exceeded("total", cur);
            }
            PEAK.fetch_max(cur, Ordering::Relaxed);
            LARGEST.fetch_max(size, Ordering::Relaxed);
        }
        System.alloc(layout)
    }
    unsafe fn dealloc(&self, ptr: *mut u8, layout: Layout) {
        if METER_ON.load(Ordering::Relaxed) != 0 {
            // saturating: memory allocated before metering began may be freed now
            let size = layout.size();
            let _ = CURRENT.fetch_update(Ordering::Relaxed, Ordering::Relaxed, |c| Some(c.saturating_sub(size)));
        }
        System.dealloc(ptr, layout)
    }
    unsafe fn realloc(&self, ptr: *mut u8, layout: Layout, new_size: usize) -> *mut u8 {
        if METER_ON.load(Ordering::Relaxed) != 0 {
            let cs = CAP_SINGLE.load(Ordering::Relaxed);
            if cs != 0 && new_size > cs {
                cap_exceeded("single", new_size);
            }
            if new_size > layout.size() {
                let add = new_size - layout.size();
                let cur = CURRENT.fetch_add(add, Ordering::Relaxed) + add;
                let ct = CAP_TOTAL.load(Ordering::Relaxed);
                if ct != 0 && cur > ct {
                    cap_exceeded("total", cur);
                }
                PEAK.fetch_max(cur, Ordering::Relaxed);
            } else {
                let sub = layout.size() - new_size;
                let _ = CURRENT.fetch_update(Ordering::Relaxed, Ordering::Relaxed, |c| Some(c.saturating_sub(sub)));
            }
            LARGEST.fetch_max(new_size, Ordering::Relaxed);
        }
        System.realloc(ptr, layout, new_size)
    }
}

pub fn meter_start(cap_single: usize, cap_total: usize) {
    CURRENT.store(0, Ordering::Relaxed);
    PEAK.store(0, Ordering::Relaxed);
    LARGEST.store(0, Ordering::Relaxed);
    CAP_SINGLE.store(cap_single, Ordering::Relaxed);
    CAP_TOTAL.store(cap_total, Ordering::Relaxed);
    METER_ON.store(1, Ordering::Relaxed);
}

/// returns (peak additional bytes, largest single request)
pub fn meter_stop() -> (usize, usize) {
    METER_ON.store(0, Ordering::Relaxed);
    CAP_SINGLE.store(0, Ordering::Relaxed);
    CAP_TOTAL.store(0, Ordering::Relaxed);
    (PEAK.load(Ordering::Relaxed), LARGEST.load(Ordering::Relaxed))
}
