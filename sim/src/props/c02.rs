//! C02 Document state equals the op-based CRDT interpretation of its history.

use super::*;
use crate::events::*;
use crate::gen::Profile;
use crate::prng::Fnv;

pub fn def() -> PropDef {
    PropDef {
        id: "C02",
        title: "State = op-based CRDT interpretation",
        level: "exploration",
        profile,
        oracle: |_cfg| Box::new(C02::default()),
        quick_runs: 72_000,
        thorough_runs: 600_000,
        panic_is_violation: false,
        rule: "run = seeded conflict-heavy multi-actor history; after every event that changes a replica's applied set the document read through the public API (R2) is compared with the reference interpreter (R1) over exactly that change set, plus 3 historical head sets at the end; non-trivial = run reached at least one of {conflict set >= 2, concurrent insert at same position, delete/overwrite of a conflicted value, nested replace}; distinct by digest of the final applied sets and state",
        custom: None,
        abort_prone: false,
        probes: &["probe.conflict_set_ge2", "probe.conflict_set_ge3", "probe.historical_checked", "probe.r1_checks"],
        fault_kinds: &["fault.reorder", "fault.dup"],
    }
}

pub fn profile() -> Profile {
    Profile {
        text_conflict_prologue_permille: 120,
        replicas: (2, 5),
        events: (10, 140),
        max_keys: 3,
        w_merge: 6,
        w_deliver: 14,
        w_send: 10,
        w_drop: 0,
        e_delete: 14,
        e_inc: 10,
        e_put_obj: 10,
        quarantine_on_permille: 250,
        ..Profile::default()
    }
}

#[derive(Default)]
pub struct C02 {
    checked_len: Vec<usize>,
    hit: bool,
    state: Fnv,
}

fn scan_probes(t: &Tree, stats: &mut Stats, hit: &mut bool) {
    let regs: Vec<&Reg> = match t {
        Tree::Map(_, m) => m.values().collect(),
        Tree::List(l) => l.iter().collect(),
        Tree::Text(t) => t.elems.iter().collect(),
    };
    for r in regs {
        if r.vals.len() >= 2 {
            stats.bump("probe.conflict_set_ge2");
            *hit = true;
        }
        if r.vals.len() >= 3 {
            stats.bump("probe.conflict_set_ge3");
        }
        for (_, v) in &r.vals {
            if let Val::Obj(t) = v {
                scan_probes(t, stats, hit);
            }
        }
    }
}

pub fn check_against_r1(w: &mut World, r: usize, property: &str) -> Result<Tree, Violation> {
    let got = observe_replica(w, r, property, "r2_equals_r1")?;
    let want = interpret(&w.reg, &w.reps[r].known, w.cfg.enc);
    w.stats.bump("probe.r1_checks");
    if let Some(d) = tree_diff(&want, &got) {
        return Err(violation(
            property,
            "r2_equals_r1",
            &format!("state-vs-model:{}", sig_of_detail(&d)),
            w.step,
            format!("replica {r} with {} changes: model vs document: {d}", w.reps[r].known.len()),
        ));
    }
    Ok(got)
}

impl Oracle for C02 {
    fn after(&mut self, w: &mut World, _ev: &Ev, out: &Outcome) -> Result<(), Violation> {
        let r = match out {
            Outcome::Committed { r, .. } => *r,
            Outcome::Delivered { to, .. } => *to,
            Outcome::Merged { to, .. } => *to,
            Outcome::Forked { new, .. } => *new,
            Outcome::Restarted { r, .. } => *r,
            Outcome::SyncRecv { to, .. } => *to,
            _ => return Ok(()),
        };
        while self.checked_len.len() < w.n() {
            self.checked_len.push(0);
        }
        if w.reps[r].isolated.is_some() || w.reps[r].doc.pending_ops() > 0 || w.reps[r].tainted {
            return Ok(());
        }
        if self.checked_len[r] == w.reps[r].known.len() {
            return Ok(());
        }
        self.checked_len[r] = w.reps[r].known.len();
        let t = check_against_r1(w, r, "C02")?;
        let mut hit = false;
        let mut st = std::mem::take(&mut w.stats);
        scan_probes(&t, &mut st, &mut hit);
        w.stats = st;
        self.hit |= hit;
        Ok(())
    }

    fn finish(&mut self, w: &mut World) -> Result<(), Violation> {
        for r in 0..w.n() {
            if w.reps[r].isolated.is_some() || w.reps[r].tainted {
                continue;
            }
            w.commit_pending(r);
            let t = check_against_r1(w, r, "C02")?;
            self.state.u64(t.digest());
            // historical heads
            for k in 0..3u32 {
                let hs = match w.pick_heads(r, w.cfg.p2.wrapping_add(k * 7919)) {
                    Some(h) if !h.is_empty() => h,
                    _ => continue,
                };
                let (anc, missing) = w.reg.ancestors(&hs);
                if !missing.is_empty() {
                    continue;
                }
                let got = observe(&w.reps[r].doc, Some(&hs)).map_err(|e| {
                    violation(
                        "C02",
                        "historical_r2_equals_r1",
                        &read_sig(&e.0),
                        w.step,
                        format!("replica {r} at historical heads: {}", e.0),
                    )
                })?;
                let want = interpret(&w.reg, &anc, w.cfg.enc);
                w.stats.bump("probe.historical_checked");
                if let Some(d) = tree_diff(&want, &got) {
                    return Err(violation(
                        "C02",
                        "historical_r2_equals_r1",
                        &format!("state-vs-model:{}", sig_of_detail(&d)),
                        w.step,
                        format!("replica {r} at heads of {} changes: model vs document: {d}", anc.len()),
                    ));
                }
            }
        }
        Ok(())
    }

    fn nontrivial(&self, _w: &World) -> Option<u64> {
        if self.hit {
            Some(self.state.finish())
        } else {
            None
        }
    }
}
