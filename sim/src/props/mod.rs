//! Property definitions: workload profile + oracle per property.

use crate::model::*;
use crate::observe::*;
use crate::run::*;
use crate::world::*;
pub use automerge::transaction::Transactable;
pub use automerge::ReadDoc;

pub mod c01;
pub mod c02;
pub mod c04;
pub mod c05;
pub mod c06;
pub mod c10;
pub mod c11;
pub mod c12;
pub mod c13;
pub mod c14;
pub mod c15;
pub mod c16;
pub mod c18;
pub mod c19;
pub mod c38;
pub mod c40;
pub mod hist;
pub mod misc;
pub mod patches;
pub mod rich;
pub mod seq;
pub mod syncp;

pub fn all() -> Vec<PropDef> {
    vec![c01::def(), c02::def(), c04::def(), c05::def(), c10::def(), c11::def(), c12::def(), c13::def(), c14::def(), c15::def(), c15::def_c17(), c16::def(), c16::def_c39(), c40::def(), c38::def(), c06::def(), syncp::def_c20(), syncp::def_c21(), syncp::def_c22(), syncp::def_c23(), c19::def(), c19::def_c30(), hist::def_c07(), hist::def_c29(), hist::def_c28(), patches::def_c09(), patches::def_c08(), misc::def_c31(), misc::def_c32(), misc::def_c37(), c18::def(), seq::def_c03(), seq::def_c24(), rich::def_c27(), rich::def_c25(), rich::def_c26()]
}

pub fn find(id: &str) -> Option<PropDef> {
    all().into_iter().find(|p| p.id == id)
}

/// signature of an observation failure (one class per kind of inconsistent read)
pub fn read_sig(detail: &str) -> String {
    if detail.contains("twice") {
        "read-inconsistency:keys-lists-key-twice".to_string()
    } else {
        format!("read-inconsistency:{}", sig_of_detail(detail))
    }
}

/// observe a replica's current state; an observation failure is reported under `oracle`
pub fn observe_replica(w: &World, r: usize, property: &str, oracle: &str) -> Result<Tree, Violation> {
    observe(&w.reps[r].doc, None).map_err(|e| {
        violation(
            property,
            oracle,
            &read_sig(&e.0),
            w.step,
            format!("replica {r}: {}", e.0),
        )
    })
}

/// a short, digit-free classification of a detail message (for signatures)
pub fn sig_of_detail(s: &str) -> String {
    // drop quoted strings, bracketed lists and paths: they carry run-specific content
    let mut clean = String::new();
    let (mut in_q, mut depth) = (false, 0i32);
    let mut prev = ' ';
    for ch in s.chars() {
        match ch {
            '"' if prev != '\\' => in_q = !in_q,
            '[' | '<' | '{' if !in_q => depth += 1,
            ']' | '>' | '}' if !in_q => depth = (depth - 1).max(0),
            _ if in_q || depth > 0 => {}
            _ => clean.push(ch),
        }
        prev = ch;
    }
    let mut out = String::new();
    let mut words = 0;
    for tok in clean.split(|c: char| !c.is_ascii_alphabetic() && c != '_') {
        if tok.len() < 3 || tok.starts_with('/') {
            continue;
        }
        // skip hex-looking tokens (actor ids, hashes)
        if tok.chars().all(|c| c.is_ascii_hexdigit()) {
            continue;
        }
        if !out.is_empty() {
            out.push('-');
        }
        out.push_str(tok);
        words += 1;
        if words >= 6 {
            break;
        }
    }
    out
}

pub fn heads_sorted(mut h: Vec<Hash>) -> Vec<Hash> {
    h.sort();
    h
}

pub fn short(h: &Hash) -> String {
    hex::encode(&h[..4])
}
