//! Property definitions: workload profile + oracle per property.

use crate::model::*;
use crate::observe::*;
use crate::run::*;
use crate::world::*;
pub use automerge::transaction::Transactable;
pub use automerge::ReadDoc;

pub mod c01;
pub mod c02;

pub fn all() -> Vec<PropDef> {
    vec![c01::def(), c02::def()]
}

pub fn find(id: &str) -> Option<PropDef> {
    all().into_iter().find(|p| p.id == id)
}

/// observe a replica's current state; an observation failure is reported under `oracle`
pub fn observe_replica(w: &World, r: usize, property: &str, oracle: &str) -> Result<Tree, Violation> {
    observe(&w.reps[r].doc, None).map_err(|e| {
        violation(
            property,
            oracle,
            &format!("read-inconsistency:{}", sig_of_detail(&e.0)),
            w.step,
            format!("replica {r}: {}", e.0),
        )
    })
}

/// a short, digit-free classification of a detail message (for signatures)
pub fn sig_of_detail(s: &str) -> String {
    let mut out = String::new();
    let mut words = 0;
    for tok in s.split(|c: char| !c.is_ascii_alphabetic() && c != '_') {
        if tok.len() < 3 {
            continue;
        }
        // skip hex-looking tokens
        if tok.len() >= 6 && tok.chars().all(|c| c.is_ascii_hexdigit()) {
            continue;
        }
        if !out.is_empty() {
            out.push('-');
        }
        out.push_str(tok);
        words += 1;
        if words >= 6 {
            break;
        }
    }
    out
}

pub fn heads_sorted(mut h: Vec<Hash>) -> Vec<Hash> {
    h.sort();
    h
}

pub fn short(h: &Hash) -> String {
    hex::encode(&h[..4])
}
