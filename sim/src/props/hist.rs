//! C07 historical reads, C29 isolation, C28 rollback.

use super::*;
use crate::events::*;
use crate::gen::Profile;
use crate::plain;
use crate::prng::Fnv;
use automerge::transaction::CommitOptions;
use automerge::{AutoCommit, ObjId, ROOT};
use std::collections::BTreeSet;

pub fn def_c07() -> PropDef {
    PropDef {
        id: "C07",
        title: "Historical reads equal reads of the document as it was",
        level: "exploration",
        profile: profile_c07,
        oracle: |_cfg| Box::new(C07::default()),
        quick_runs: 30_000,
        thorough_runs: 300_000,
        panic_is_violation: false,
        rule: "run = multi-replica history with long chains (so that cached clocks are used), branches and merges; at probe points and at the end, for head sets H that occurred in the run (including heads of concurrent branches and merged states): all *_at(H) reads normalised by R2, hydrate(Some(H)), spans, parents_at and cursor positions at H must equal the reference interpreter over ancestors(H); fork_at(H) must have heads H and the same tree; the same reads are repeated on a clone advanced by one dummy change so that H is no longer current (clock-scoped path). non-trivial = H differs from the current heads and has >= 3 ancestors; distinct by digest of (|ancestors(H)|, state digest)",
        custom: None,
        abort_prone: false,
        probes: &["probe.historical_checked", "probe.h_not_current", "probe.h_concurrent_branch", "probe.fork_at_checked", "probe.advanced_clone_checked", "probe.hydrate_at_checked", "probe.parents_at_checked", "probe.cursor_at_checked", "probe.long_history_ge40"],
        fault_kinds: &["fault.reorder"],
    }
}

pub fn def_c29() -> PropDef {
    PropDef {
        id: "C29",
        title: "Isolated transactions act on the chosen heads",
        level: "exploration",
        profile: profile_c29,
        oracle: |_cfg| Box::new(C29::default()),
        quick_runs: 60_000,
        thorough_runs: 500_000,
        panic_is_violation: false,
        rule: "run = multi-replica history in which replicas isolate at head sets H from the run, edit and commit under isolation while remote changes keep arriving, and integrate; after every event on an isolated replica with no open transaction, reads (R2 and hydrate) must equal the reference interpreter over ancestors(H) + the isolated chain; after integrate the state must equal R1 over all applied changes (deps of isolated commits are C04's). non-trivial = remote changes arrived during isolation or >= 2 isolated commits; distinct by digest of the isolate/integrate sequence",
        custom: None,
        abort_prone: false,
        probes: &["probe.isolated_reads_checked", "probe.isolated_hydrate_checked", "probe.delivery_under_isolation", "probe.integrate_checked", "probe.isolated_commits_ge2", "probe.isolated_at_old_heads"],
        fault_kinds: &["fault.reorder"],
    }
}

pub fn def_c28() -> PropDef {
    PropDef {
        id: "C28",
        title: "Rollback restores the exact prior document",
        level: "exploration",
        profile: profile_c28,
        oracle: |_cfg| Box::new(C28::default()),
        quick_runs: 90_000,
        thorough_runs: 800_000,
        panic_is_violation: false,
        rule: "run = multi-replica history in which transactions of arbitrary edits (object creation, deletes of conflicted values, splices, marks, blocks, first change of a new actor, under isolation) are aborted by rollback at arbitrary positions (and by crashes); a snapshot is taken when the transaction opens; after rollback save() bytes, heads and the R2 tree must equal the snapshot, and the rolled-back document and an untouched clone, given the same next transaction and commit time, must produce byte-identical changes. non-trivial = the aborted transaction had >= 2 ops of >= 2 kinds; distinct by digest of the op-kind multiset",
        custom: None,
        abort_prone: false,
        probes: &["probe.rollbacks_checked", "probe.rollback_multi_kind", "probe.rollback_new_actor", "probe.rollback_under_isolation", "probe.rollback_created_object", "probe.twin_commit_compared"],
        fault_kinds: &["fault.rollback", "fault.crash_lost_open_tx"],
    }
}

pub fn profile_c07() -> Profile {
    Profile {
        ladder_prologue_permille: 25,
        text_conflict_prologue_permille: 120,
        replicas: (2, 4),
        events: (20, 160),
        w_commit: 18,
        w_merge: 5,
        w_probe: 3,
        w_fork: 1,
        long_chain_permille: 250,
        e_mark: 6,
        ..Profile::default()
    }
}

pub fn profile_c29() -> Profile {
    Profile {
        replicas: (2, 4),
        events: (20, 150),
        w_commit: 16,
        w_isolate: 6,
        w_integrate: 3,
        w_merge: 4,
        w_deliver: 14,
        w_send: 10,
        ..Profile::default()
    }
}

pub fn profile_c28() -> Profile {
    Profile {
        text_conflict_prologue_permille: 120,
        replicas: (1, 3),
        events: (15, 140),
        w_rollback: 10,
        w_commit: 8,
        w_set_actor: 2,
        w_isolate: 2,
        w_integrate: 2,
        w_merge: 4,
        w_save: 1,
        w_crash: 1,
        e_block: 3,
        e_update_text: 2,
        max_keys: 4,
        ..Profile::default()
    }
}

// ------------------------------------------------------------------------------------------------

#[derive(Default)]
pub struct C07 {
    nontrivial: bool,
    digest: Fnv,
}

/// path from the root to `target` in a tree: list of (parent object, prop) pairs, winners or not
fn find_path(t: &Tree, here: &ObjRef, target: &Oid, path: &mut Vec<(ObjRef, PropK)>) -> bool {
    let regs: Vec<(PropK, &Reg)> = match t {
        Tree::Map(_, m) => m.iter().map(|(k, r)| (PropK::Key(k.clone()), r)).collect(),
        Tree::List(l) => l.iter().enumerate().map(|(i, r)| (PropK::Idx(i), r)).collect(),
        Tree::Text(tt) => {
            let mut acc = 0;
            tt.elems
                .iter()
                .enumerate()
                .map(|(i, r)| {
                    let p = PropK::Idx(acc);
                    acc += tt.widths[i];
                    (p, r)
                })
                .collect()
        }
    };
    for (p, r) in regs {
        for (id, v) in &r.vals {
            if let Val::Obj(sub) = v {
                path.push((here.clone(), p.clone()));
                if id == target {
                    return true;
                }
                if find_path(sub, &ObjRef::Id(id.clone()), target, path) {
                    return true;
                }
                path.pop();
            }
        }
    }
    false
}

impl C07 {
    fn check(&mut self, w: &mut World, r: usize, sel: u32) -> Result<(), Violation> {
        if w.reps[r].isolated.is_some() || w.reps[r].tainted {
            return Ok(());
        }
        w.commit_pending(r);
        let step = w.step;
        let fail = |oracle: &str, sig: &str, d: String| violation("C07", oracle, sig, step, format!("replica {r}: {d}"));
        let current = heads_sorted(from_hashes(&w.reps[r].doc.get_heads()));
        if w.reps[r].known.len() >= 40 {
            w.stats.bump("probe.long_history_ge40");
        }
        let mut advanced: Option<AutoCommit> = None;
        for k in 0..3u32 {
            let hs = match w.pick_heads(r, sel.wrapping_add(k.wrapping_mul(2654435761))) {
                Some(h) if !h.is_empty() => h,
                _ => continue,
            };
            let (anc, missing) = w.reg.ancestors(&hs);
            if !missing.is_empty() {
                continue;
            }
            w.stats.bump("probe.historical_checked");
            let not_current = heads_sorted(hs.clone()) != current;
            if not_current {
                w.stats.bump("probe.h_not_current");
                if anc.len() >= 3 {
                    self.nontrivial = true;
                }
                if !current.iter().all(|c| w.reg.ancestors(&[*c]).0.is_superset(&anc)) || hs.len() > 1 {
                    w.stats.bump("probe.h_concurrent_branch");
                }
            }
            let want = interpret(&w.reg, &anc, w.cfg.enc);
            self.digest.u64(anc.len() as u64);
            self.digest.u64(want.digest());
            let got = observe(&w.reps[r].doc, Some(&hs)).map_err(|e| fail("reads_at", &read_sig(&e.0), format!("at heads of {} changes: {}", anc.len(), e.0)))?;
            if let Some(d) = tree_diff(&want, &got) {
                return Err(fail("reads_at", &format!("historical-state-differs:{}", sig_of_detail(&d)), format!("at heads of {} changes (document has {}): model vs *_at reads: {d}", anc.len(), w.reps[r].known.len())));
            }
            // hydrate at H
            let hy = w.reps[r].doc.hydrate(&ROOT, Some(&to_hashes(&hs))).map_err(|e| fail("hydrate_at", "hydrate-at-failed", format!("{e}")))?;
            w.stats.bump("probe.hydrate_at_checked");
            if let Some(d) = plain::plain_diff(&plain::of_tree(&want), &plain::of_hydrate(&hy), "") {
                return Err(fail("hydrate_at", &format!("hydrate-at-differs:{}", sig_of_detail(&d)), format!("hydrate(Some(H)) vs model at heads of {} changes: {d}", anc.len())));
            }
            // fork_at
            match w.reps[r].doc.fork_at(&to_hashes(&hs)) {
                Ok(mut f) => {
                    w.stats.bump("probe.fork_at_checked");
                    let fh = heads_sorted(from_hashes(&f.get_heads()));
                    if fh != heads_sorted(hs.clone()) {
                        return Err(fail("fork_at_heads", "fork-at-heads-differ", format!("fork_at(H) has heads {:?}, H = {:?}", fh.iter().map(short).collect::<Vec<_>>(), hs.iter().map(short).collect::<Vec<_>>())));
                    }
                    let ft = observe(&f, None).map_err(|e| fail("fork_at_state", "read-inconsistency", e.0.clone()))?;
                    if let Some(d) = tree_diff(&want, &ft) {
                        return Err(fail("fork_at_state", &format!("fork-at-state-differs:{}", sig_of_detail(&d)), format!("fork_at(H) vs model: {d}")));
                    }
                }
                Err(e) => return Err(fail("fork_at_succeeds", "fork-at-failed", format!("fork_at of heads the document contains failed: {e}"))),
            }
            // the same reads once H is certainly not current
            if advanced.is_none() {
                let mut c = w.reps[r].doc.clone();
                let _ = automerge::transaction::Transactable::put(&mut c, ROOT, "__verif_dummy", 1);
                c.commit_with(CommitOptions::default().with_time(0));
                advanced = Some(c);
            }
            if let Some(c) = &advanced {
                w.stats.bump("probe.advanced_clone_checked");
                let got2 = observe(c, Some(&hs)).map_err(|e| fail("reads_at_after_advance", "read-inconsistency", e.0.clone()))?;
                if let Some(d) = tree_diff(&want, &got2) {
                    return Err(fail("reads_at_after_advance", &format!("historical-state-differs:{}", sig_of_detail(&d)), format!("after one more change, reads at the same heads changed: {d}")));
                }
            }
            // parents_at and cursor positions for one object alive at H
            let ancv: Vec<&MChange> = anc.iter().filter_map(|h| w.reg.get(h).map(|c| &**c)).collect();
            let interp = Interp::new(ancv.into_iter(), w.cfg.enc);
            let objs: Vec<(ObjRef, OType)> = interp.all_objects().into_iter().skip(1).collect();
            if !objs.is_empty() {
                let (oref, otyp) = objs[(sel as usize).wrapping_add(k as usize) % objs.len()].clone();
                if let ObjRef::Id(oid) = &oref {
                    let exid = exid_of(&oref);
                    let mut path = Vec::new();
                    let reachable = find_path(&want, &ObjRef::Root, oid, &mut path);
                    if reachable {
                        w.stats.bump("probe.parents_at_checked");
                        match w.reps[r].doc.parents_at(&exid, &to_hashes(&hs)) {
                            Ok(ps) => {
                                let got: Vec<(ObjRef, String)> = ps.map(|p| (objref_of(&p.obj), format!("{}", p.prop))).collect();
                                if got.last().map(|x| &x.0) != Some(&ObjRef::Root) {
                                    return Err(fail("parents_at", "parents-do-not-reach-root", format!("parents_at({}) = {:?} does not end at the root although the object is reachable at H", oref.show(), got)));
                                }
                                // every step must be a real edge of the model tree: (parent, prop) holds the child
                                let mut child = oref.clone();
                                for (pobj, _prop) in &got {
                                    let ptyp = interp.obj_type(pobj).unwrap_or(OType::Map);
                                    let pt = interp.object(pobj, ptyp, 0);
                                    let holds = match &pt {
                                        Tree::Map(_, m) => m.values().any(|reg| reg.vals.iter().any(|(id, _)| ObjRef::Id(id.clone()) == child)),
                                        Tree::List(l) => l.iter().any(|reg| reg.vals.iter().any(|(id, _)| ObjRef::Id(id.clone()) == child)),
                                        Tree::Text(t) => t.elems.iter().any(|reg| reg.vals.iter().any(|(id, _)| ObjRef::Id(id.clone()) == child)),
                                    };
                                    if !holds {
                                        return Err(fail("parents_at", "parents-not-an-edge", format!("parents_at({}) names parent {} which does not hold {} at H", oref.show(), pobj.show(), child.show())));
                                    }
                                    child = pobj.clone();
                                }
                            }
                            Err(e) => return Err(fail("parents_at", "parents-at-failed", format!("parents_at({}) failed for an object reachable at H: {e}", oref.show()))),
                        }
                    }
                    if otyp.is_seq() {
                        let elems = interp.seq_elems(&oref);
                        let total: usize = elems.iter().filter(|e| e.visible).map(|e| e.width).sum();
                        if total > 0 {
                            let pos = (sel as usize / 5) % total;
                            let mut acc = 0;
                            let mut start = 0;
                            for e in elems.iter().filter(|e| e.visible && e.width > 0) {
                                if pos < acc + e.width {
                                    start = acc;
                                    break;
                                }
                                acc += e.width;
                            }
                            w.stats.bump("probe.cursor_at_checked");
                            let hh = to_hashes(&hs);
                            match w.reps[r].doc.get_cursor(&exid, pos, Some(&hh)) {
                                Ok(cur) => {
                                    let back = w.reps[r].doc.get_cursor_position(&exid, &cur, Some(&hh));
                                    if back.as_ref().ok() != Some(&start) {
                                        return Err(fail("cursor_at", "cursor-at-position-differs", format!("object {} at H: get_cursor({pos}) -> get_cursor_position = {back:?}, the element starts at {start}", oref.show())));
                                    }
                                }
                                Err(e) => return Err(fail("cursor_at", "cursor-at-failed", format!("get_cursor({pos}) at H failed on an object of length {total}: {e}"))),
                            }
                        }
                    }
                }
            }
        }
        Ok(())
    }
}

impl Oracle for C07 {
    fn after(&mut self, w: &mut World, ev: &Ev, _out: &Outcome) -> Result<(), Violation> {
        if let Ev::Probe { r, arg } = ev {
            let r = w.rsel(*r);
            self.check(w, r, *arg)?;
        }
        Ok(())
    }
    fn finish(&mut self, w: &mut World) -> Result<(), Violation> {
        for r in 0..w.n() {
            self.check(w, r, w.cfg.p2.wrapping_add(r as u32))?;
        }
        Ok(())
    }
    fn nontrivial(&self, _w: &World) -> Option<u64> {
        if self.nontrivial {
            Some(self.digest.finish())
        } else {
            None
        }
    }
}

// ------------------------------------------------------------------------------------------------

#[derive(Default)]
pub struct C29 {
    /// per replica: (isolation base heads, step at which isolation began, known size then)
    iso: Vec<Option<(Vec<Hash>, u64, usize)>>,
    nontrivial: bool,
    digest: Fnv,
}

impl C29 {
    fn check_isolated(&mut self, w: &mut World, r: usize) -> Result<(), Violation> {
        let (base, since, _) = match &self.iso[r] {
            Some(x) => x.clone(),
            None => return Ok(()),
        };
        if w.reps[r].doc.pending_ops() > 0 || w.reps[r].tainted {
            return Ok(());
        }
        let step = w.step;
        let fail = |oracle: &str, sig: &str, d: String| violation("C29", oracle, sig, step, format!("replica {r} isolated at heads {:?} since step {since}: {d}", base.iter().map(short).collect::<Vec<_>>()));
        let (mut set, missing) = w.reg.ancestors(&base);
        if !missing.is_empty() {
            return Ok(());
        }
        // the isolated chain: changes this replica created since it isolated
        let chain: Vec<Hash> = w.reps[r].known.iter().filter(|h| w.reg.get(h).map_or(false, |c| c.creator == r && c.born_step > since)).cloned().collect();
        if chain.len() >= 2 {
            w.stats.bump("probe.isolated_commits_ge2");
            self.nontrivial = true;
        }
        set.extend(chain.iter().cloned());
        // structural check first: an isolated change may only refer to ops inside its scope
        {
            let all: Vec<&MChange> = set.iter().filter_map(|h| w.reg.get(h).map(|c| &**c)).collect();
            let scope = Interp::new(all.into_iter(), w.cfg.enc);
            let everything: Vec<&MChange> = w.reps[r].known.iter().filter_map(|h| w.reg.get(h).map(|c| &**c)).collect();
            let whole = Interp::new(everything.into_iter(), w.cfg.enc);
            for h in &chain {
                let c = w.reg.get(h).unwrap();
                for op in &c.ops {
                    let mut refs: Vec<(&str, &Oid)> = Vec::new();
                    if let KeyRef::Elem(e) = &op.key {
                        refs.push(("reference element", e));
                    }
                    if let ObjRef::Id(o) = &op.obj {
                        refs.push(("object", o));
                    }
                    for p in &op.pred {
                        refs.push(("predecessor", p));
                    }
                    for (what, id) in refs {
                        if !scope.has_op(id) && whole.has_op(id) {
                            let kind = whole.op_kind(id);
                            return Err(fail(
                                "isolated_change_refers_inside_scope",
                                &format!("isolated-change-references-op-outside-scope:{}:{kind}", what.replace(' ', "-")),
                                format!("isolated change {} (op {}) names {} {} as its {what}, an op of a change that is neither an ancestor of the isolation heads nor part of the isolated chain ({kind})", short(h), op.id.show(), id.show(), kind),
                            ));
                        }
                    }
                }
            }
        }
        let want = interpret(&w.reg, &set, w.cfg.enc);
        w.stats.bump("probe.isolated_reads_checked");
        let got = observe(&w.reps[r].doc, None).map_err(|e| fail("isolated_reads", &read_sig(&e.0), e.0.clone()))?;
        if let Some(d) = tree_diff(&want, &got) {
            return Err(fail("isolated_reads", &format!("isolated-state-differs:{}", sig_of_detail(&d)), format!("model (ancestors of the isolation heads + own isolated changes, {} changes; the document holds {}) vs reads: {d}", set.len(), w.reps[r].known.len())));
        }
        w.stats.bump("probe.isolated_hydrate_checked");
        let hy = w.reps[r].doc.hydrate(&ROOT, None).map_err(|e| fail("isolated_hydrate", "hydrate-failed", format!("{e}")))?;
        if let Some(d) = plain::plain_diff(&plain::of_tree(&want), &plain::of_hydrate(&hy), "") {
            return Err(fail("isolated_hydrate", "hydrate-ignores-isolation", format!("hydrate(ROOT, None) under isolation vs model: {d}")));
        }
        Ok(())
    }
}

impl Oracle for C29 {
    fn after(&mut self, w: &mut World, ev: &Ev, out: &Outcome) -> Result<(), Violation> {
        while self.iso.len() < w.n() {
            self.iso.push(None);
        }
        match ev {
            Ev::Isolate { r, .. } => {
                let r = w.rsel(*r);
                if let (Some(h), None) = (w.reps[r].isolated.clone(), &self.iso[r]) {
                    let current = heads_sorted(from_hashes(&w.reps[r].doc.document().get_heads()));
                    if heads_sorted(h.clone()) != current {
                        w.stats.bump("probe.isolated_at_old_heads");
                    }
                    self.iso[r] = Some((h, w.step, w.reps[r].known.len()));
                    self.digest.u64(w.step);
                }
                self.check_isolated(w, r)
            }
            Ev::Integrate { r } => {
                let r = w.rsel(*r);
                if self.iso[r].take().is_some() && w.reps[r].isolated.is_none() {
                    w.stats.bump("probe.integrate_checked");
                    self.digest.u64(1_000_000 + w.step);
                    let got = observe_replica(w, r, "C29", "integrated_state")?;
                    let want = interpret(&w.reg, &w.reps[r].known, w.cfg.enc);
                    if let Some(d) = tree_diff(&want, &got) {
                        return Err(violation("C29", "integrated_state", &format!("integrated-state-differs:{}", sig_of_detail(&d)), w.step, format!("replica {r} after integrate: model over all {} applied changes vs reads: {d}", w.reps[r].known.len())));
                    }
                }
                Ok(())
            }
            _ => {
                let r = match out {
                    Outcome::Delivered { to, .. } | Outcome::Merged { to, .. } => *to,
                    Outcome::Committed { r, .. } | Outcome::Edit { r, .. } | Outcome::RolledBack { r, .. } => *r,
                    _ => return Ok(()),
                };
                if self.iso[r].is_some() {
                    if matches!(out, Outcome::Delivered { .. }) {
                        self.nontrivial = true;
                    }
                    self.check_isolated(w, r)?;
                }
                Ok(())
            }
        }
    }
    fn finish(&mut self, w: &mut World) -> Result<(), Violation> {
        while self.iso.len() < w.n() {
            self.iso.push(None);
        }
        for r in 0..w.n() {
            if self.iso[r].is_some() {
                w.commit_pending(r);
                self.check_isolated(w, r)?;
                let ev = Ev::Integrate { r: r as u8 };
                let out = w.exec(&ev);
                self.after(w, &ev, &out)?;
            }
        }
        Ok(())
    }
    fn nontrivial(&self, _w: &World) -> Option<u64> {
        if self.nontrivial {
            Some(self.digest.finish())
        } else {
            None
        }
    }
}

// ------------------------------------------------------------------------------------------------

struct Snap {
    bytes: Vec<u8>,
    heads: Vec<Hash>,
    tree: Tree,
    doc: AutoCommit,
    actor: Vec<u8>,
    kinds: BTreeSet<&'static str>,
    ops: usize,
    created_obj: bool,
}

#[derive(Default)]
pub struct C28 {
    snaps: Vec<Option<Snap>>,
    nontrivial: bool,
    digest: Fnv,
}

impl Oracle for C28 {
    fn before(&mut self, w: &mut World, ev: &Ev) {
        while self.snaps.len() < w.n() {
            self.snaps.push(None);
        }
        // a transaction is about to open: snapshot the document
        if let Ev::Edit { r, .. } = ev {
            let r = w.rsel(*r);
            if w.reps[r].doc.pending_ops() == 0 && !w.reps[r].tainted {
                let mut c = w.reps[r].doc.clone();
                // an empty open transaction (left behind by a failed first edit) is closed by document()
                let bytes = c.document().save();
                let heads = heads_sorted(from_hashes(&c.document().get_heads()));
                if let Ok(tree) = observe(&c, None) {
                    self.snaps[r] = Some(Snap { bytes, heads, tree, doc: c, actor: w.reps[r].actor.clone(), kinds: BTreeSet::new(), ops: 0, created_obj: false });
                }
            }
        }
    }

    fn after(&mut self, w: &mut World, ev: &Ev, out: &Outcome) -> Result<(), Violation> {
        while self.snaps.len() < w.n() {
            self.snaps.push(None);
        }
        match out {
            Outcome::Edit { r, result, .. } => {
                if let (Some(s), Ok(created)) = (self.snaps[*r].as_mut(), result) {
                    s.kinds.insert(ev.kind());
                    s.ops += 1;
                    s.created_obj |= created.is_some();
                }
                if w.reps[*r].doc.pending_ops() == 0 {
                    // nothing pending (the edit failed as first op): the snapshot is not attached to a transaction
                    self.snaps[*r] = None;
                }
                Ok(())
            }
            Outcome::RolledBack { r, .. } => {
                let r = *r;
                let snap = match self.snaps[r].take() {
                    Some(s) => s,
                    None => return Ok(()),
                };
                w.stats.bump("probe.rollbacks_checked");
                w.stats.bump("fault.rollback");
                let step = w.step;
                let fail = |oracle: &str, sig: &str, d: String| violation("C28", oracle, sig, step, format!("replica {r} after rolling back a transaction of {} ops ({:?}): {d}", snap.ops, snap.kinds));
                if snap.kinds.len() >= 2 {
                    w.stats.bump("probe.rollback_multi_kind");
                    self.nontrivial = true;
                }
                if snap.created_obj {
                    w.stats.bump("probe.rollback_created_object");
                }
                if w.reps[r].isolated.is_some() {
                    w.stats.bump("probe.rollback_under_isolation");
                }
                let first_of_actor = !w.reps[r].known.iter().filter_map(|h| w.reg.get(h)).any(|c| c.actor == snap.actor);
                if first_of_actor {
                    w.stats.bump("probe.rollback_new_actor");
                }
                for k in &snap.kinds {
                    self.digest.str(k);
                }
                self.digest.u64(snap.ops as u64);
                let tree = observe(&w.reps[r].doc, None).map_err(|e| fail("state_restored", "read-inconsistency", e.0.clone()))?;
                if let Some(d) = tree_diff(&snap.tree, &tree) {
                    return Err(fail("state_restored", &format!("state-not-restored:{}", sig_of_detail(&d)), d));
                }
                let mut c = w.reps[r].doc.clone();
                let heads = heads_sorted(from_hashes(&c.document().get_heads()));
                if heads != snap.heads {
                    return Err(fail("heads_restored", "heads-not-restored", "heads differ".to_string()));
                }
                let bytes = c.document().save();
                if bytes != snap.bytes {
                    let at = bytes.iter().zip(snap.bytes.iter()).position(|(a, b)| a != b).unwrap_or(bytes.len().min(snap.bytes.len()));
                    return Err(fail("save_bytes_restored", "save-bytes-not-restored", format!("save() is {} bytes, before the transaction {} bytes; first difference at byte {at} (actor table or op columns changed)", bytes.len(), snap.bytes.len())));
                }
                // twin: the same next transaction on the rolled-back document and on the untouched clone
                let mut a = w.reps[r].doc.clone();
                let mut b = snap.doc;
                let calls = [
                    Call::Put { obj: ROOT, prop: PropK::Key("tw".into()), val: Sv::Int(7) },
                    Call::PutObj { obj: ROOT, prop: PropK::Key("tl".into()), ty: OType::List },
                    Call::Put { obj: ROOT, prop: PropK::Key("a".into()), val: Sv::Str("after".into()) },
                    Call::Delete { obj: ROOT, prop: PropK::Key("b".into()) },
                ];
                let mut made: Option<(ObjId, ObjId)> = None;
                for c in &calls {
                    let ra = World::apply_call(&mut a, c);
                    let rb = World::apply_call(&mut b, c);
                    if ra.is_ok() != rb.is_ok() {
                        return Err(fail("twin_behaviour", "twin-call-result-differs", format!("{c:?} gives {ra:?} after rollback and {rb:?} on the untouched document")));
                    }
                    if let (Ok(Some(x)), Ok(Some(y))) = (ra, rb) {
                        made = Some((x, y));
                    }
                }
                if let Some((x, y)) = made {
                    if x != y {
                        return Err(fail("twin_behaviour", "twin-object-id-differs", format!("the next transaction creates object {x} after rollback but {y} on the untouched document (op ids were consumed)")));
                    }
                    let _ = World::apply_call(&mut a, &Call::Insert { obj: x, idx: 0, val: Sv::Int(1) });
                    let _ = World::apply_call(&mut b, &Call::Insert { obj: y, idx: 0, val: Sv::Int(1) });
                }
                let t = w.reps[r].clock + 1;
                let ha = a.commit_with(CommitOptions::default().with_time(t));
                let hb = b.commit_with(CommitOptions::default().with_time(t));
                w.stats.bump("probe.twin_commit_compared");
                if ha != hb {
                    let da = a.get_last_local_change().map(|c| format!("{:?}", c.decode())).unwrap_or_default();
                    let db = b.get_last_local_change().map(|c| format!("{:?}", c.decode())).unwrap_or_default();
                    return Err(fail("twin_behaviour", "twin-change-differs", format!("the same next transaction produces different changes: after rollback {} vs untouched {}", da.chars().take(500).collect::<String>(), db.chars().take(500).collect::<String>())));
                }
                Ok(())
            }
            Outcome::Nop | Outcome::Sent { .. } | Outcome::Other => {
                let r = ev.replica() as usize % w.n();
                if w.reps[r].doc.pending_ops() == 0 {
                    self.snaps[r] = None;
                }
                Ok(())
            }
            _ => {
                // any commit ends the transaction the snapshot belongs to
                for r in 0..w.n() {
                    if w.reps[r].doc.pending_ops() == 0 {
                        self.snaps[r] = None;
                    }
                }
                Ok(())
            }
        }
    }

    fn finish(&mut self, _w: &mut World) -> Result<(), Violation> {
        Ok(())
    }
    fn nontrivial(&self, _w: &World) -> Option<u64> {
        if self.nontrivial {
            Some(self.digest.finish())
        } else {
            None
        }
    }
}
