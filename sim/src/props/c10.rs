//! C10 History is immutable and content-addressed.

use super::*;
use crate::events::*;
use crate::gen::Profile;
use crate::prng::Fnv;
use automerge::AutoCommit;
use std::collections::{BTreeMap, BTreeSet};

pub fn def() -> PropDef {
    PropDef {
        id: "C10",
        title: "History is immutable and content-addressed",
        level: "exploration",
        profile,
        oracle: |_cfg| Box::new(C10::default()),
        quick_runs: 60_000,
        thorough_runs: 800_000,
        panic_is_violation: false,
        rule: "run = seeded multi-replica history with later edits that add successors/deletes to old ops, merges, forks, clean restarts; at probe points and at the end, on every replica: every retrievable change is byte-identical to the bytes recorded at creation and its hash is the harness-computed SHA-256 of the chunk; get_changes(have) for have-sets drawn from the run = exactly the non-ancestors of have, each after its deps; get_changes_added / get_last_local_change likewise; all again after load(save()); non-trivial = some retrieved change has an op that later gained a successor; distinct by digest of the change DAG",
        custom: None,
        abort_prone: false,
        probes: &["probe.change_with_later_successor", "probe.have_sets_checked", "probe.changes_compared", "probe.after_reload_checked", "probe.get_changes_added_checked", "probe.last_local_checked"],
        fault_kinds: &["fault.reorder", "fault.dup", "fault.loss", "fault.crash.clean"],
    }
}

pub fn profile() -> Profile {
    Profile {
        ladder_prologue_permille: 25,
        replicas: (2, 5),
        events: (10, 140),
        w_probe: 3,
        w_merge: 5,
        w_fork: 2,
        w_save: 1,
        w_crash: 1,
        e_delete: 14,
        max_keys: 4,
        ..Profile::default()
    }
}

#[derive(Default)]
pub struct C10 {
    nontrivial: bool,
    dag: Fnv,
}

fn check_doc(w: &mut World, r: usize, doc: &mut AutoCommit, label: &str, sel: u32) -> Result<bool, Violation> {
    let step = w.step;
    let fail = |oracle: &str, sig: &str, detail: String| violation("C10", oracle, sig, step, format!("replica {r} ({label}): {detail}"));
    let known = w.reps[r].known.clone();
    // 1. every change by hash, byte-identical, content-addressed
    let mut later_successor = false;
    let all_ops: BTreeSet<Oid> = known
        .iter()
        .filter_map(|h| w.reg.get(h))
        .flat_map(|c| c.ops.iter().flat_map(|o| o.pred.iter().cloned()))
        .collect();
    for h in &known {
        let c = w.reg.get(h).unwrap().clone();
        let got = match doc.get_change_by_hash(&automerge::ChangeHash(*h)) {
            Some(g) => g,
            None => return Err(fail("change_by_hash_present", "change-missing", format!("get_change_by_hash({}) is None", short(h)))),
        };
        w.stats.bump("probe.changes_compared");
        if got.raw_bytes() != c.raw.as_slice() {
            return Err(fail(
                "bytes_identical",
                "change-bytes-differ",
                format!("change {} (seq {} of {}) differs from its bytes at creation ({} vs {} bytes)", short(h), c.seq, hex::encode(&c.actor), got.raw_bytes().len(), c.raw.len()),
            ));
        }
        if got.hash().0 != *h || chunk_hash(got.raw_bytes()) != Some(*h) {
            return Err(fail("hash_is_sha256", "hash-mismatch", format!("change {} does not hash to its id", short(h))));
        }
        if c.ops.iter().any(|o| all_ops.contains(&o.id)) && c.born_step + 3 < step {
            later_successor = true;
        }
    }
    // 2. get_changes(have) for have-sets from the run
    let mut haves: Vec<Vec<Hash>> = vec![vec![]];
    for k in 0..4u32 {
        if let Some(h) = w.pick_heads(r, sel.wrapping_add(k.wrapping_mul(2654435761))) {
            haves.push(h);
        }
    }
    // a have-set containing a hash the document does not know is filtered out by the API; include one
    if let Some(foreign) = w.reg.order.iter().find(|h| !known.contains(*h)) {
        let mut h = haves.last().cloned().unwrap_or_default();
        h.push(*foreign);
        haves.push(h);
    }
    for have in haves {
        let known_have: Vec<Hash> = have.iter().filter(|h| known.contains(*h)).cloned().collect();
        let (anc, _) = w.reg.ancestors(&known_have);
        let want: BTreeSet<Hash> = known.difference(&anc).cloned().collect();
        let got = doc.get_changes(&to_hashes(&have));
        w.stats.bump("probe.have_sets_checked");
        let got_set: BTreeSet<Hash> = got.iter().map(|c| c.hash().0).collect();
        if got_set.len() != got.len() {
            return Err(fail("get_changes_exact", "get-changes-duplicates", format!("get_changes returned {} changes, {} distinct", got.len(), got_set.len())));
        }
        if got_set != want {
            return Err(fail(
                "get_changes_exact",
                if got_set.len() < want.len() { "get-changes-too-few" } else { "get-changes-wrong-set" },
                format!(
                    "get_changes(have of {} hashes): {} changes returned, {} expected (non-ancestors of have); missing {:?} extra {:?}",
                    have.len(),
                    got_set.len(),
                    want.len(),
                    want.difference(&got_set).take(3).map(short).collect::<Vec<_>>(),
                    got_set.difference(&want).take(3).map(short).collect::<Vec<_>>()
                ),
            ));
        }
        let pos: BTreeMap<Hash, usize> = got.iter().enumerate().map(|(i, c)| (c.hash().0, i)).collect();
        for (i, c) in got.iter().enumerate() {
            for d in c.deps() {
                if let Some(j) = pos.get(&d.0) {
                    if *j > i {
                        return Err(fail("get_changes_topological", "get-changes-order", format!("change {} returned before its dependency {}", short(&c.hash().0), short(&d.0))));
                    }
                }
            }
            if c.raw_bytes() != w.reg.changes[&c.hash().0].raw.as_slice() {
                return Err(fail("bytes_identical", "change-bytes-differ", format!("get_changes: change {} differs from its bytes at creation", short(&c.hash().0))));
            }
        }
    }
    Ok(later_successor)
}

impl C10 {
    fn check_replica(&mut self, w: &mut World, r: usize, sel: u32, reload: bool) -> Result<(), Violation> {
        if w.reps[r].isolated.is_some() || w.reps[r].tainted {
            return Ok(());
        }
        w.commit_pending(r);
        let mut doc = std::mem::replace(&mut w.reps[r].doc, AutoCommit::new());
        let res = check_doc(w, r, &mut doc, "live", sel);
        // get_last_local_change: the change of the current actor with the greatest seq
        let res = res.and_then(|ls| {
            let actor = doc.get_actor().to_bytes().to_vec();
            let want = w.reps[r].known.iter().filter_map(|h| w.reg.get(h)).filter(|c| c.actor == actor).max_by_key(|c| c.seq).map(|c| c.hash);
            let got = doc.get_last_local_change().map(|c| c.hash().0);
            w.stats.bump("probe.last_local_checked");
            if got != want {
                return Err(violation("C10", "last_local_change", "last-local-wrong", w.step, format!("replica {r}: get_last_local_change = {:?}, expected {:?}", got.map(|h| short(&h)), want.map(|h| short(&h)))));
            }
            Ok(ls)
        });
        let res = match res {
            Ok(ls) => {
                if ls {
                    self.nontrivial = true;
                    w.stats.bump("probe.change_with_later_successor");
                }
                if reload {
                    let bytes = doc.document().save();
                    match AutoCommit::load_with_options(&bytes, automerge::LoadOptions::new().text_encoding(w.cfg.enc.to_am())) {
                        Ok(mut d2) => {
                            w.stats.bump("probe.after_reload_checked");
                            check_doc(w, r, &mut d2, "after load(save())", sel).map(|_| ())
                        }
                        Err(e) => Err(violation("C10", "reload", &format!("reload-failed:{}", sig_of_detail(&format!("{e}"))), w.step, format!("replica {r}: load(save()) failed: {e}"))),
                    }
                } else {
                    Ok(())
                }
            }
            Err(v) => Err(v),
        };
        w.reps[r].doc = doc;
        res?;
        // get_changes_added against another replica
        let o = (r + 1) % w.n();
        if o != r && w.reps[o].isolated.is_none() && !w.reps[o].tainted {
            w.commit_pending(o);
            let want: BTreeSet<Hash> = w.reps[o].known.difference(&w.reps[r].known).cloned().collect();
            let (a, b) = two_mut(&mut w.reps, r, o);
            let got: Vec<automerge::Change> = a.doc.get_changes_added(&mut b.doc);
            let got_set: BTreeSet<Hash> = got.iter().map(|c| c.hash().0).collect();
            w.stats.bump("probe.get_changes_added_checked");
            if got_set != want || got_set.len() != got.len() {
                return Err(violation("C10", "get_changes_added", "changes-added-wrong", w.step, format!("replica {r}.get_changes_added(replica {o}) returned {} changes, expected {}", got.len(), want.len())));
            }
            for c in &got {
                if c.raw_bytes() != w.reg.changes[&c.hash().0].raw.as_slice() {
                    return Err(violation("C10", "bytes_identical", "change-bytes-differ", w.step, format!("get_changes_added: change {} differs from its bytes at creation", short(&c.hash().0))));
                }
            }
        }
        Ok(())
    }
}

impl Oracle for C10 {
    fn after(&mut self, w: &mut World, ev: &Ev, _out: &Outcome) -> Result<(), Violation> {
        if let Ev::Probe { r, arg } = ev {
            let r = w.rsel(*r);
            self.check_replica(w, r, *arg, arg % 3 == 0)?;
        }
        Ok(())
    }

    fn finish(&mut self, w: &mut World) -> Result<(), Violation> {
        for r in 0..w.n() {
            self.check_replica(w, r, w.cfg.p2, true)?;
        }
        for h in &w.reg.order {
            let c = &w.reg.changes[h];
            self.dag.u64(c.deps.len() as u64);
            self.dag.u64(c.ops.len() as u64);
            self.dag.u64(c.seq);
        }
        Ok(())
    }

    fn nontrivial(&self, _w: &World) -> Option<u64> {
        if self.nontrivial {
            Some(self.dag.finish())
        } else {
            None
        }
    }
}
