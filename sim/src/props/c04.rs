//! C04 Change metadata and heads follow causality.

use super::*;
use crate::events::*;
use crate::gen::Profile;
use crate::prng::Fnv;
use std::collections::BTreeSet;

pub fn def() -> PropDef {
    PropDef {
        id: "C04",
        title: "Change metadata and heads follow causality",
        level: "exploration",
        profile,
        oracle: |_cfg| Box::new(C04::default()),
        quick_runs: 100_000,
        thorough_runs: 1_000_000,
        panic_is_violation: false,
        rule: "run = seeded program mixing local commits, empty commits, merges, gossip, forks, actor switches, isolation and clean restarts; every change is checked at creation against the creating replica's pre-state (seq, start_op, deps) and after every event heads = maximal applied changes; non-trivial = run has a merge/delivery between two commits of one actor, an isolated commit, or an actor switch; distinct by digest of the change DAG shape",
        custom: None,
        abort_prone: false,
        probes: &["probe.merge_between_own_commits", "probe.isolated_commit", "probe.actor_switch_commit", "probe.empty_change_checked", "probe.changes_checked"],
        fault_kinds: &["fault.reorder", "fault.dup", "fault.loss", "fault.crash.clean"],
    }
}

pub fn profile() -> Profile {
    Profile {
        replicas: (2, 6),
        events: (10, 140),
        w_commit: 16,
        w_empty: 3,
        w_merge: 5,
        w_fork: 2,
        w_set_actor: 2,
        w_isolate: 3,
        w_integrate: 4,
        w_save: 1,
        w_crash: 1,
        keep_actor_permille: 500,
        ..Profile::default()
    }
}

#[derive(Default)]
pub struct C04 {
    reg_len_before: usize,
    pre_known: Vec<BTreeSet<Hash>>,
    pre_isolated: Vec<Option<Vec<Hash>>>,
    /// last event kind that changed replica r's applied set other than by its own commit
    foreign_since_own: Vec<bool>,
    nontrivial: bool,
    shape: Fnv,
}

impl Oracle for C04 {
    fn before(&mut self, w: &mut World, _ev: &Ev) {
        self.reg_len_before = w.reg.order.len();
        self.pre_known = w.reps.iter().map(|r| r.known.clone()).collect();
        self.pre_isolated = w.reps.iter().map(|r| r.isolated.clone()).collect();
    }

    fn after(&mut self, w: &mut World, ev: &Ev, out: &Outcome) -> Result<(), Violation> {
        while self.foreign_since_own.len() < w.n() {
            self.foreign_since_own.push(false);
        }
        let skip_meta = matches!(out, Outcome::Restarted { .. } | Outcome::Forked { .. });
        let fresh: Vec<Hash> = w.reg.order[self.reg_len_before..].to_vec();
        // running pre-state per replica
        let mut running: Vec<BTreeSet<Hash>> = self.pre_known.clone();
        while running.len() < w.n() {
            running.push(BTreeSet::new());
        }
        let mut iso = self.pre_isolated.clone();
        while iso.len() < w.n() {
            iso.push(None);
        }
        for h in &fresh {
            let c = w.reg.changes[h].clone();
            let r = c.creator;
            if r >= w.n() || skip_meta {
                continue;
            }
            w.stats.bump("probe.changes_checked");
            let pre = &running[r];
            // seq
            let max_seq = pre
                .iter()
                .filter_map(|x| w.reg.get(x))
                .filter(|x| x.actor == c.actor)
                .map(|x| x.seq)
                .max()
                .unwrap_or(0);
            if c.seq != max_seq + 1 {
                return Err(violation(
                    "C04",
                    "seq_is_next",
                    "seq-not-next",
                    w.step,
                    format!(
                        "replica {r}: change {} by actor {} has seq {} but the document held seq {} for that actor",
                        short(h),
                        hex::encode(&c.actor),
                        c.seq,
                        max_seq
                    ),
                ));
            }
            // start_op
            let max_op = pre.iter().filter_map(|x| w.reg.get(x)).map(|x| x.max_op()).max().unwrap_or(0);
            if c.start_op <= max_op {
                return Err(violation(
                    "C04",
                    "start_op_above_applied",
                    "start-op-not-above",
                    w.step,
                    format!("replica {r}: change {} has start_op {} but applied changes reach op {}", short(h), c.start_op, max_op),
                ));
            }
            // deps
            let mut want: BTreeSet<Hash> = match &iso[r] {
                Some(hs) => {
                    w.stats.bump("probe.isolated_commit");
                    self.nontrivial = true;
                    hs.iter().cloned().collect()
                }
                None => {
                    let mut s: BTreeSet<Hash> = w.reg.heads_of(pre).into_iter().collect();
                    if c.seq > 1 {
                        if let Some(prev) = pre
                            .iter()
                            .filter_map(|x| w.reg.get(x))
                            .find(|x| x.actor == c.actor && x.seq == c.seq - 1)
                        {
                            s.insert(prev.hash);
                        }
                    }
                    s
                }
            };
            let got: BTreeSet<Hash> = c.deps.iter().cloned().collect();
            if got.len() != c.deps.len() {
                want.clear();
            }
            if got != want || got.len() != c.deps.len() {
                return Err(violation(
                    "C04",
                    if iso[r].is_some() { "deps_isolated" } else { "deps_are_heads_plus_own" },
                    if iso[r].is_some() { "deps-isolated-wrong" } else { "deps-wrong" },
                    w.step,
                    format!(
                        "replica {r}: change {} (seq {}) has deps {:?}, expected {:?}",
                        short(h),
                        c.seq,
                        c.deps.iter().map(short).collect::<Vec<_>>(),
                        want.iter().map(short).collect::<Vec<_>>()
                    ),
                ));
            }
            if c.ops.is_empty() {
                w.stats.bump("probe.empty_change_checked");
            }
            if c.seq == 1 && pre.iter().filter_map(|x| w.reg.get(x)).any(|x| x.creator == r) {
                w.stats.bump("probe.actor_switch_commit");
                self.nontrivial = true;
            }
            if self.foreign_since_own[r] && c.seq > 1 {
                w.stats.bump("probe.merge_between_own_commits");
                self.nontrivial = true;
            }
            self.foreign_since_own[r] = false;
            self.shape.u64(c.deps.len() as u64);
            self.shape.u64(c.seq);
            self.shape.u64(c.ops.len() as u64);
            if iso[r].is_some() {
                iso[r] = Some(vec![*h]);
            }
            running[r].insert(*h);
        }
        // foreign arrivals
        let touched = ev.replica() as usize % w.n();
        match out {
            Outcome::Delivered { to, .. } | Outcome::Merged { to, .. } | Outcome::SyncRecv { to, .. } => {
                if w.reps[*to].known.len() > running[*to].len() {
                    self.foreign_since_own[*to] = true;
                }
            }
            _ => {}
        }
        // heads = maximal applied changes, on every replica touched by the event
        let mut check: Vec<usize> = vec![touched];
        if let Outcome::Forked { new, .. } = out {
            check.push(*new);
        }
        if let Outcome::Merged { from, .. } = out {
            check.push(*from);
        }
        for r in check {
            if w.reps[r].doc.pending_ops() > 0 {
                continue;
            }
            let heads = heads_sorted(from_hashes(&w.reps[r].doc.document().get_heads()));
            let want = heads_sorted(w.reg.heads_of(&w.reps[r].known));
            if heads != want {
                return Err(violation(
                    "C04",
                    "heads_are_maximal",
                    "heads-not-maximal",
                    w.step,
                    format!(
                        "replica {r}: get_heads = {:?} but the maximal applied changes are {:?}",
                        heads.iter().map(short).collect::<Vec<_>>(),
                        want.iter().map(short).collect::<Vec<_>>()
                    ),
                ));
            }
            // the incrementally harvested set must agree with a full report now and then
            if w.step % 16 == 0 {
                let full = w.applied_set_unscoped(r);
                if full != w.reps[r].known {
                    w.harness_error = Some(format!("harvest drift on replica {r} at step {}", w.step));
                }
            }
        }
        Ok(())
    }

    fn finish(&mut self, w: &mut World) -> Result<(), Violation> {
        for r in 0..w.n() {
            self.before(w, &Ev::Probe { r: 0, arg: 0 });
            w.commit_pending(r);
            self.after(w, &Ev::Probe { r: r as u8, arg: 0 }, &Outcome::Other)?;
        }
        Ok(())
    }

    fn nontrivial(&self, _w: &World) -> Option<u64> {
        if self.nontrivial {
            Some(self.shape.finish())
        } else {
            None
        }
    }
}
