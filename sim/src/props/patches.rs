//! C09 incremental patches keep a materialized view equal to the document; C08 diff between any two heads.

use super::*;
use crate::events::*;
use crate::gen::Profile;
use crate::patchview::*;
use crate::prng::Fnv;

pub fn def_c09() -> PropDef {
    PropDef {
        id: "C09",
        title: "Incremental patches keep a materialized view equal to the document",
        level: "exploration",
        profile: profile_c09,
        oracle: |_cfg| Box::new(C09::default()),
        quick_runs: 60_000,
        thorough_runs: 500_000,
        panic_is_violation: false,
        rule: "run = multi-replica history in which every replica keeps a materialized view fed ONLY by the patches the document emits (AutoCommit::diff_incremental) after every mutating path: local transactions (at commit), rollback, apply_changes (single/batch), merge, load_incremental streams, received sync messages, load (view rebuilt from the full-state patches), fork, isolate/integrate; after each such event the view (independent patch applier R4) must equal the document read through R2: values, conflict flags, counter values, list order, text and per-unit marks. non-trivial = a remote change touched a key/element that was conflicted or a counter at the receiver; distinct by digest of the patch-kind sequence",
        custom: None,
        abort_prone: false,
        probes: &["probe.views_compared", "probe.patches_applied", "probe.patch.PutMap", "probe.patch.PutSeq", "probe.patch.Insert", "probe.patch.SpliceText", "probe.patch.Increment", "probe.patch.Conflict", "probe.patch.DeleteMap", "probe.patch.DeleteSeq", "probe.patch.Mark", "probe.remote_on_conflicted_or_counter", "probe.view_after_isolate", "probe.view_after_load"],
        fault_kinds: &["fault.reorder", "fault.dup", "fault.crash.clean"],
    }
}

pub fn def_c08() -> PropDef {
    PropDef {
        id: "C08",
        title: "diff between any two heads transforms one state into the other",
        level: "exploration",
        profile: profile_c08,
        oracle: |_cfg| Box::new(C08::default()),
        quick_runs: 40_000,
        thorough_runs: 300_000,
        panic_is_violation: false,
        rule: "run = multi-replica history with branches and merges; at probe points and at the end, for ordered pairs (H1, H2) of head sets from the run, in both directions: the patches of diff(H1, H2) applied by the independent applier R4 to the state at H1 (R2 at H1) must give the state at H2, including conflict flags, counter values, text and marks; the same for diff_obj on one object (recursive: compared on the subtree; non-recursive: on the object's own registers). non-trivial = neither head set is an ancestor set of the other, or the direction is backward; distinct by digest of (|anc(H1)|, |anc(H2)|, state digests)",
        custom: None,
        abort_prone: false,
        probes: &["probe.diff_pairs_checked", "probe.diff_backward", "probe.diff_concurrent_heads", "probe.diff_obj_recursive", "probe.diff_obj_flat", "probe.patches_applied"],
        fault_kinds: &["fault.reorder"],
    }
}

pub fn profile_c09() -> Profile {
    Profile {
        text_conflict_prologue_permille: 120,
        replicas: (2, 4),
        events: (15, 140),
        w_merge: 5,
        w_deliver: 14,
        w_send: 10,
        w_rollback: 2,
        w_isolate: 1,
        w_integrate: 2,
        w_fork: 1,
        w_save: 1,
        w_crash: 1,
        w_connect: 1,
        w_gen: 5,
        w_recv: 5,
        connect_all_at_permille: Some(500),
        max_keys: 3,
        e_inc: 10,
        e_delete: 12,
        wire: vec![WireEnc::Raw, WireEnc::Compressed, WireEnc::FullSave, WireEnc::Bundle],
        ..Profile::default()
    }
}

pub fn profile_c08() -> Profile {
    Profile {
        text_conflict_prologue_permille: 120,
        replicas: (2, 4),
        events: (15, 140),
        w_merge: 5,
        w_probe: 3,
        w_commit: 16,
        max_keys: 3,
        e_inc: 8,
        e_delete: 12,
        long_chain_permille: 80,
        ..Profile::default()
    }
}

#[derive(Default)]
pub struct C09 {
    views: Vec<Option<View>>,
    nontrivial: bool,
    digest: Fnv,
}

/// fixed vocabulary of view/document differences (document side first)
pub fn diff_class(d: &str) -> String {
    let body = d.split_once(": ").map(|x| x.1).unwrap_or(d);
    if let Some(rest) = body.strip_prefix("conflict flag ") {
        return format!("conflict-flag-{}", rest.replace(" vs ", "-vs-"));
    }
    if body.starts_with("value ") {
        let ctr = body.matches("ctr(").count();
        return match ctr {
            2 => "counter-value".into(),
            1 => "value-counter-vs-other".into(),
            _ => "value".into(),
        };
    }
    for (p, c) in [("keys ", "keys"), ("list length", "list-length"), ("text pieces", "text-pieces"), ("text ", "text"), ("marks at", "marks"), ("object id", "object-id"), ("object missing", "object-missing"), ("scalar vs object", "scalar-vs-object"), ("object kinds", "object-kinds"), ("embedded", "embedded")] {
        if body.starts_with(p) {
            return c.into();
        }
    }
    "other".into()
}

fn kind_of(p: &automerge::Patch) -> &'static str {
    use automerge::PatchAction::*;
    match p.action {
        PutMap { .. } => "PutMap",
        PutSeq { .. } => "PutSeq",
        Insert { .. } => "Insert",
        SpliceText { .. } => "SpliceText",
        Increment { .. } => "Increment",
        Conflict { .. } => "Conflict",
        DeleteMap { .. } => "DeleteMap",
        DeleteSeq { .. } => "DeleteSeq",
        Mark { .. } => "Mark",
    }
}

impl C09 {
    fn sync_view(&mut self, w: &mut World, r: usize, why: &str) -> Result<(), Violation> {
        while self.views.len() < w.n() {
            self.views.push(None);
        }
        if w.reps[r].tainted || w.reps[r].doc.pending_ops() > 0 {
            return Ok(());
        }
        let enc = w.cfg.enc;
        if self.views[r].is_none() {
            self.views[r] = Some(View::new(enc));
        }
        let step = w.step;
        let fail = |oracle: &str, sig: &str, d: String| violation("C09", oracle, sig, step, format!("replica {r} after {why}: {d}"));
        let patches = w.reps[r].doc.diff_incremental();
        if std::env::var("AMSIM_TRACE").is_ok() {
            for p in &patches {
                let s = format!("{:?}", p.action);
                eprintln!("    patch r{r} obj={} {}", p.obj, &s[..s.len().min(300)]);
            }
        }
        for p in &patches {
            w.stats.bump(&format!("probe.patch.{}", kind_of(p)));
            self.digest.str(kind_of(p));
        }
        w.stats.add("probe.patches_applied", patches.len() as u64);
        let view = self.views[r].as_mut().unwrap();
        if let Err(e) = view.apply_all(&patches) {
            let kinds: Vec<&str> = patches.iter().map(kind_of).collect();
            let idx: usize = e.split(' ').nth(1).and_then(|x| x.parse().ok()).unwrap_or(0);
            let k = patches.get(idx).map(kind_of).unwrap_or("?");
            return Err(fail("patches_apply", &format!("patch-does-not-apply:{k}"), format!("{e}; patches were {kinds:?}")));
        }
        let tree = observe(&w.reps[r].doc, None).map_err(|e| fail("reads", &read_sig(&e.0), e.0.clone()))?;
        let want = view_of_tree(&tree, enc);
        w.stats.bump("probe.views_compared");
        if let Some(d) = view_diff(&want, self.views[r].as_ref().unwrap()) {
            let kinds: Vec<&str> = patches.iter().map(kind_of).collect();
            return Err(fail("view_equals_document", &format!("view-differs:{}", diff_class(&d)), format!("document vs view: {d}; the {} patches of this step were {kinds:?}", patches.len())));
        }
        Ok(())
    }
}

impl Oracle for C09 {
    fn before(&mut self, w: &mut World, ev: &Ev) {
        // does this event bring remote changes to a register that is conflicted or a counter? (probe only)
        if let Ev::Deliver { to, .. } | Ev::Merge { to, .. } = ev {
            let r = w.rsel(*to);
            if let Ok(t) = observe(&w.reps[r].doc, None) {
                fn has(t: &Tree) -> bool {
                    let regs: Vec<&Reg> = match t {
                        Tree::Map(_, m) => m.values().collect(),
                        Tree::List(l) => l.iter().collect(),
                        Tree::Text(x) => x.elems.iter().collect(),
                    };
                    regs.iter().any(|r| r.conflict() || r.vals.iter().any(|(_, v)| matches!(v, Val::Scalar(Sv::Counter(_))) || matches!(v, Val::Obj(t) if has(t))))
                }
                if has(&t) {
                    w.stats.bump("probe.remote_on_conflicted_or_counter");
                    self.nontrivial = true;
                }
            }
        }
    }

    fn after(&mut self, w: &mut World, ev: &Ev, out: &Outcome) -> Result<(), Violation> {
        while self.views.len() < w.n() {
            self.views.push(None);
        }
        match out {
            Outcome::Edit { .. } | Outcome::Nop | Outcome::Saved { .. } => Ok(()),
            Outcome::Restarted { r, .. } => {
                // the view is rebuilt from the patches a fresh load emits
                self.views[*r] = Some(View::new(w.cfg.enc));
                w.stats.bump("probe.view_after_load");
                self.sync_view(w, *r, "load")
            }
            Outcome::Forked { r, new } => {
                self.views[*new] = Some(View::new(w.cfg.enc));
                self.sync_view(w, *r, "fork (parent)")?;
                self.sync_view(w, *new, "fork (child)")
            }
            Outcome::Merged { from, to, .. } => {
                self.sync_view(w, *from, "merge (source)")?;
                self.sync_view(w, *to, "merge")
            }
            Outcome::Delivered { to, stream, .. } => self.sync_view(w, *to, if *stream { "load_incremental" } else { "apply_changes" }),
            Outcome::SyncRecv { to, .. } => self.sync_view(w, *to, "receive_sync_message"),
            Outcome::SyncGen { from, .. } | Outcome::Sent { from, .. } => self.sync_view(w, *from, "implicit commit"),
            Outcome::Committed { r, .. } => self.sync_view(w, *r, "commit"),
            Outcome::RolledBack { r, .. } => self.sync_view(w, *r, "rollback"),
            _ => {
                let r = ev.replica() as usize % w.n();
                if matches!(ev, Ev::Isolate { .. } | Ev::Integrate { .. }) {
                    w.stats.bump("probe.view_after_isolate");
                    return self.sync_view(w, r, ev.kind());
                }
                self.sync_view(w, r, ev.kind())
            }
        }
    }

    fn finish(&mut self, w: &mut World) -> Result<(), Violation> {
        for r in 0..w.n() {
            w.commit_pending(r);
            self.sync_view(w, r, "final commit")?;
        }
        Ok(())
    }

    fn nontrivial(&self, _w: &World) -> Option<u64> {
        if self.nontrivial {
            Some(self.digest.finish())
        } else {
            None
        }
    }
}

#[derive(Default)]
pub struct C08 {
    nontrivial: bool,
    digest: Fnv,
}

impl C08 {
    fn check(&mut self, w: &mut World, r: usize, sel: u32) -> Result<(), Violation> {
        if w.reps[r].isolated.is_some() || w.reps[r].tainted {
            return Ok(());
        }
        w.commit_pending(r);
        let enc = w.cfg.enc;
        let step = w.step;
        let fail = |oracle: &str, sig: &str, d: String| violation("C08", oracle, sig, step, format!("replica {r}: {d}"));
        for k in 0..3u32 {
            let h1 = match w.pick_heads(r, sel.wrapping_add(k.wrapping_mul(7919))) {
                Some(h) => h,
                None => continue,
            };
            let h2 = match w.pick_heads(r, sel.wrapping_mul(31).wrapping_add(k.wrapping_mul(104729)).wrapping_add(1)) {
                Some(h) => h,
                None => continue,
            };
            if h1 == h2 {
                continue;
            }
            let (a1, m1) = w.reg.ancestors(&h1);
            let (a2, m2) = w.reg.ancestors(&h2);
            if !m1.is_empty() || !m2.is_empty() {
                continue;
            }
            for (from, to, af, at) in [(&h1, &h2, &a1, &a2), (&h2, &h1, &a2, &a1)] {
                w.stats.bump("probe.diff_pairs_checked");
                let backward = !af.is_subset(at);
                if backward {
                    w.stats.bump("probe.diff_backward");
                    self.nontrivial = true;
                }
                if !af.is_subset(at) && !at.is_subset(af) {
                    w.stats.bump("probe.diff_concurrent_heads");
                }
                let t_from = observe(&w.reps[r].doc, Some(from)).map_err(|e| fail("reads_at", "read-inconsistency", e.0.clone()))?;
                let t_to = observe(&w.reps[r].doc, Some(to)).map_err(|e| fail("reads_at", "read-inconsistency", e.0.clone()))?;
                self.digest.u64(af.len() as u64);
                self.digest.u64(at.len() as u64);
                self.digest.u64(t_to.digest());
                let mut view = view_of_tree(&t_from, enc);
                let patches = w.reps[r].doc.diff(&to_hashes(from), &to_hashes(to));
                w.stats.add("probe.patches_applied", patches.len() as u64);
                let kinds: Vec<&str> = patches.iter().map(kind_of).collect();
                if let Err(e) = view.apply_all(&patches) {
                    let idx: usize = e.split(' ').nth(1).and_then(|x| x.parse().ok()).unwrap_or(0);
                    let k = kinds.get(idx).copied().unwrap_or("?");
                    return Err(fail("diff_applies", &format!("patch-does-not-apply:{}:{k}", sig_of_detail(&e)), format!("diff from heads of {} changes to heads of {} changes: {e}; patches {kinds:?}", af.len(), at.len())));
                }
                let want = view_of_tree(&t_to, enc);
                if let Some(d) = view_diff(&want, &view) {
                    return Err(fail("diff_reaches_target", &format!("diff-result-differs:{}", diff_class(&d)), format!("diff from heads of {} changes to heads of {} changes ({}): state at target vs state at source + patches: {d}; patches {kinds:?}", af.len(), at.len(), if backward { "backward" } else { "forward" })));
                }
                // per-object diffs on one object alive at both ends
                let objs: Vec<String> = want.objs.keys().filter(|k| *k != "_root" && view_of_tree(&t_from, enc).objs.contains_key(*k)).cloned().collect();
                if !objs.is_empty() {
                    let key = objs[(sel as usize + k as usize) % objs.len()].clone();
                    let oref = key.split_once('@').and_then(|(c, a)| Some(ObjRef::Id(Oid { ctr: c.parse().ok()?, actor: hex::decode(a).ok()? })));
                    if let Some(oref) = oref {
                        let exid = exid_of(&oref);
                        for recursive in [true, false] {
                            let ps = w.reps[r].doc.diff_obj(&exid, &to_hashes(from), &to_hashes(to), recursive);
                            let ps = match ps {
                                Ok(p) => p,
                                Err(e) => return Err(fail("diff_obj_succeeds", "diff-obj-failed", format!("diff_obj({key}) failed: {e}"))),
                            };
                            w.stats.bump(if recursive { "probe.diff_obj_recursive" } else { "probe.diff_obj_flat" });
                            let mut v2 = view_of_tree(&t_from, enc);
                            let kinds: Vec<&str> = ps.iter().map(kind_of).collect();
                            if let Err(e) = v2.apply_all(&ps) {
                                let idx: usize = e.split(' ').nth(1).and_then(|x| x.parse().ok()).unwrap_or(0);
                                let k = kinds.get(idx).copied().unwrap_or("?");
                                return Err(fail("diff_obj_applies", &format!("patch-does-not-apply:{}:{k}", sig_of_detail(&e)), format!("diff_obj({key}, recursive={recursive}): {e}; patches {kinds:?}")));
                            }
                            // compare the object itself; for the recursive form its whole subtree
                            let d = if recursive { subtree_diff(&want, &v2, &key) } else { node_shallow_diff(&want, &v2, &key) };
                            if let Some(d) = d {
                                return Err(fail("diff_obj_reaches_target", &format!("diff-obj-result-differs:{}", diff_class(&d)), format!("diff_obj({key}, recursive={recursive}): {d}; patches {kinds:?}")));
                            }
                        }
                    }
                }
            }
        }
        Ok(())
    }
}

fn subtree_diff(want: &View, got: &View, key: &str) -> Option<String> {
    let mut a = View { objs: Default::default(), enc: want.enc, ignored_unknown: 0 };
    let mut b = View { objs: Default::default(), enc: got.enc, ignored_unknown: 0 };
    // re-root both views at `key`
    for (k, v) in &want.objs {
        if k != "_root" {
            a.objs.insert(if k == key { "_root".into() } else { k.clone() }, v.clone());
        }
    }
    for (k, v) in &got.objs {
        if k != "_root" {
            b.objs.insert(if k == key { "_root".into() } else { k.clone() }, v.clone());
        }
    }
    view_diff(&a, &b)
}

fn node_shallow_diff(want: &View, got: &View, key: &str) -> Option<String> {
    let shallow = |n: &VNode| -> String {
        match n {
            VNode::Map(m) => format!("{:?}", m.iter().map(|(k, s)| (k.clone(), match &s.val { VVal::Scalar(v) => v.brief(), VVal::Obj(o) => o.clone() }, s.conflict)).collect::<Vec<_>>()),
            VNode::List(l) => format!("{:?}", l.iter().map(|s| (match &s.val { VVal::Scalar(v) => v.brief(), VVal::Obj(o) => o.clone() }, s.conflict)).collect::<Vec<_>>()),
            VNode::Text(t) => format!("{:?}", t.iter().map(|p| (p.s.clone(), p.marks.clone())).collect::<Vec<_>>()),
        }
    };
    match (want.objs.get(key), got.objs.get(key)) {
        (Some(a), Some(b)) => {
            let (sa, sb) = (shallow(a), shallow(b));
            if sa != sb {
                Some(format!("object {key}: {} vs {}", sa.chars().take(200).collect::<String>(), sb.chars().take(200).collect::<String>()))
            } else {
                None
            }
        }
        _ => Some(format!("object {key} missing")),
    }
}

impl Oracle for C08 {
    fn after(&mut self, w: &mut World, ev: &Ev, _out: &Outcome) -> Result<(), Violation> {
        if let Ev::Probe { r, arg } = ev {
            let r = w.rsel(*r);
            self.check(w, r, *arg)?;
        }
        Ok(())
    }
    fn finish(&mut self, w: &mut World) -> Result<(), Violation> {
        for r in 0..w.n() {
            self.check(w, r, w.cfg.p2.wrapping_add(r as u32 * 17))?;
        }
        Ok(())
    }
    fn nontrivial(&self, _w: &World) -> Option<u64> {
        if self.nontrivial {
            Some(self.digest.finish())
        } else {
            None
        }
    }
}
