//! C01 Convergence: replicas with the same changes show the same document.

use super::*;
use crate::events::*;
use crate::gen::Profile;
use crate::prng::{Fnv, Rng};
use automerge::sync::SyncDoc;
use automerge::{AutoCommit, Change};
use std::collections::BTreeSet;

pub fn def() -> PropDef {
    PropDef {
        id: "C01",
        title: "Convergence",
        level: "exploration",
        profile,
        oracle: |_cfg| Box::new(C01::default()),
        quick_runs: 72_000,
        thorough_runs: 600_000,
        panic_is_violation: false,
        rule: "run = seeded multi-replica history (2-6 replicas, gossip with loss/dup/reorder, merges, forks, clean restarts) followed by a quiesce phase in which every replica is brought to the full change set by a different ingestion path; non-trivial = history has >=2 concurrent changes touching the same object and >=2 distinct ingestion paths were used; distinct by digest of (DAG shape, path assignment)",
        custom: None,
        abort_prone: false,
        probes: &["probe.equal_sets_compared", "probe.path.one_by_one_shuffled", "probe.path.batch_dups", "probe.path.merge", "probe.path.load_save", "probe.path.load_incremental_chunks", "probe.path.bundle", "probe.path.sync", "probe.concurrent_same_object"],
        fault_kinds: &["fault.loss", "fault.dup", "fault.reorder", "fault.crash.clean"],
    }
}

pub fn profile() -> Profile {
    Profile {
        ladder_prologue_permille: 25,
        text_conflict_prologue_permille: 120,
        replicas: (2, 6),
        events: (10, 160),
        w_fork: 1,
        w_merge: 3,
        w_save: 2,
        w_save_inc: 2,
        w_crash: 1,
        w_empty: 1,
        subset_sends: true,
        wire: vec![WireEnc::Raw, WireEnc::Compressed, WireEnc::Reencode, WireEnc::Bundle, WireEnc::FullSave],
        ..Profile::default()
    }
}

#[derive(Default)]
pub struct C01 {
    paths_used: BTreeSet<u8>,
    concurrent_same_obj: bool,
    digest: u64,
}

pub const PATH_NAMES: [&str; 7] = [
    "one_by_one_shuffled",
    "batch_dups",
    "merge",
    "load_save",
    "load_incremental_chunks",
    "bundle",
    "sync",
];

/// build a document that holds every change of the registry (applied in creation order)
pub fn full_doc(w: &World) -> Result<AutoCommit, String> {
    let mut d = new_doc(w.cfg.enc, &[0xFE, 0xED]);
    let mut chs = Vec::new();
    for h in &w.reg.order {
        let c = &w.reg.changes[h];
        chs.push(Change::from_bytes(c.raw.clone()).map_err(|e| format!("registry bytes do not parse: {e}"))?);
    }
    d.apply_changes(chs).map_err(|e| format!("applying the registry failed: {e}"))?;
    Ok(d)
}

pub fn sync_until_quiet(a: &mut AutoCommit, b: &mut AutoCommit, max_rounds: usize) -> Result<usize, String> {
    let mut sa = automerge::sync::State::new();
    let mut sb = automerge::sync::State::new();
    for round in 0..max_rounds {
        let ma = a.sync().generate_sync_message(&mut sa);
        let mb = b.sync().generate_sync_message(&mut sb);
        if ma.is_none() && mb.is_none() {
            return Ok(round);
        }
        if let Some(m) = ma {
            let m = automerge::sync::Message::decode(&m.encode()).map_err(|e| format!("decode: {e}"))?;
            b.sync().receive_sync_message(&mut sb, m).map_err(|e| format!("receive: {e}"))?;
        }
        if let Some(m) = mb {
            let m = automerge::sync::Message::decode(&m.encode()).map_err(|e| format!("decode: {e}"))?;
            a.sync().receive_sync_message(&mut sa, m).map_err(|e| format!("receive: {e}"))?;
        }
    }
    Err(format!("sync not quiet after {max_rounds} rounds"))
}

impl C01 {
    fn fail(&self, w: &World, oracle: &str, sig: &str, detail: String) -> Violation {
        violation("C01", oracle, sig, w.step, detail)
    }

    fn compare_equal_sets(&mut self, w: &mut World, r: usize) -> Result<(), Violation> {
        if w.reps[r].tainted || w.reps[r].isolated.is_some() || w.reps[r].doc.pending_ops() > 0 {
            return Ok(());
        }
        for o in 0..w.n() {
            if o == r || w.reps[o].tainted || w.reps[o].isolated.is_some() || w.reps[o].doc.pending_ops() > 0 {
                continue;
            }
            if w.reps[o].known == w.reps[r].known && !w.reps[r].known.is_empty() {
                w.stats.bump("probe.equal_sets_compared");
                let ta = observe_replica(w, r, "C01", "equal_sets_equal_state")?;
                let tb = observe_replica(w, o, "C01", "equal_sets_equal_state")?;
                if let Some(d) = tree_diff(&ta, &tb) {
                    return Err(self.fail(
                        w,
                        "equal_sets_equal_state",
                        &format!("state-differs:{}", sig_of_detail(&d)),
                        format!("replicas {r} and {o} hold the same {} changes but differ: {d}", w.reps[r].known.len()),
                    ));
                }
                let ha = heads_sorted(from_hashes(&w.reps[r].doc.get_heads()));
                let hb = heads_sorted(from_hashes(&w.reps[o].doc.get_heads()));
                if ha != hb {
                    return Err(self.fail(
                        w,
                        "equal_sets_equal_heads",
                        "heads-differ",
                        format!("replicas {r} and {o} hold the same changes but heads differ"),
                    ));
                }
                break;
            }
        }
        Ok(())
    }
}

impl Oracle for C01 {
    fn after(&mut self, w: &mut World, _ev: &Ev, out: &Outcome) -> Result<(), Violation> {
        match out {
            Outcome::Delivered { to, .. } => self.compare_equal_sets(w, *to),
            Outcome::Merged { to, .. } => self.compare_equal_sets(w, *to),
            Outcome::Restarted { r, .. } => self.compare_equal_sets(w, *r),
            _ => Ok(()),
        }
    }

    fn finish(&mut self, w: &mut World) -> Result<(), Violation> {
        // stop faults, close transactions, leave isolation
        for r in 0..w.n() {
            if w.reps[r].isolated.is_some() {
                w.exec(&Ev::Integrate { r: r as u8 });
            }
            w.commit_pending(r);
            w.harvest(r);
        }
        if w.reg.order.is_empty() {
            return Ok(());
        }
        let all: BTreeSet<Hash> = w.reg.order.iter().cloned().collect();
        let mut full = match full_doc(w) {
            Ok(d) => d,
            Err(e) => return Err(self.fail(w, "registry_applies", &format!("full-doc:{}", sig_of_detail(&e)), e)),
        };
        let mut reference: Option<(usize, Tree, Vec<Hash>)> = None;
        let n = w.n();
        for r in 0..n {
            if w.reps[r].tainted {
                continue;
            }
            let path = w.cfg.quiesce_paths[r % w.cfg.quiesce_paths.len()] % 7;
            self.paths_used.insert(path);
            w.stats.bump(&format!("probe.path.{}", PATH_NAMES[path as usize]));
            crate::monitor::set_subcontext(PATH_NAMES[path as usize]);
            let mut rng = Rng::new(w.cfg.p1 as u64 * 31 + r as u64);
            let missing: Vec<Hash> = w.reg.order.iter().filter(|h| !w.reps[r].known.contains(*h)).cloned().collect();
            let mk = |h: &Hash| Change::from_bytes(w.reg.changes[h].raw.clone()).unwrap();
            let res: Result<(), String> = match path {
                0 => {
                    let mut order = missing.clone();
                    rng.shuffle(&mut order);
                    let mut res = Ok(());
                    for h in &order {
                        if let Err(e) = w.reps[r].doc.apply_changes(vec![mk(h)]) {
                            res = Err(format!("apply_changes: {e}"));
                            break;
                        }
                    }
                    res
                }
                1 => {
                    let mut order: Vec<Hash> = w.reg.order.clone();
                    let dups: Vec<Hash> = order.iter().filter(|_| rng.chance(200)).cloned().collect();
                    order.extend(dups);
                    rng.shuffle(&mut order);
                    let chs: Vec<Change> = order.iter().map(mk).collect();
                    w.reps[r].doc.apply_changes(chs).map_err(|e| format!("apply_changes batch: {e}"))
                }
                2 => w.reps[r].doc.merge(&mut full).map(|_| ()).map_err(|e| format!("merge: {e}")),
                3 => {
                    let bytes = if rng.bool() { full.save() } else { full.save_nocompress() };
                    match AutoCommit::load_with_options(
                        &bytes,
                        automerge::LoadOptions::new().text_encoding(w.cfg.enc.to_am()),
                    ) {
                        Ok(d) => {
                            w.reps[r].doc = d;
                            Ok(())
                        }
                        Err(e) => Err(format!("load: {e}")),
                    }
                }
                4 => {
                    let mut order = missing.clone();
                    rng.shuffle(&mut order);
                    // a few concatenated chunk streams
                    let mut res = Ok(());
                    let mut i = 0;
                    while i < order.len() {
                        let k = 1 + rng.usize(4);
                        let mut buf = Vec::new();
                        for h in &order[i..(i + k).min(order.len())] {
                            buf.extend_from_slice(&w.reg.changes[h].raw);
                        }
                        i += k;
                        if let Err(e) = w.reps[r].doc.load_incremental(&buf) {
                            res = Err(format!("load_incremental: {e}"));
                            break;
                        }
                    }
                    res
                }
                5 => {
                    if missing.is_empty() {
                        Ok(())
                    } else {
                        match full.bundle(to_hashes(&missing)) {
                            Ok(b) => w.reps[r]
                                .doc
                                .load_incremental(b.bytes())
                                .map(|_| ())
                                .map_err(|e| format!("load_incremental(bundle): {e}")),
                            Err(e) => Err(format!("bundle: {e}")),
                        }
                    }
                }
                _ => sync_until_quiet(&mut w.reps[r].doc, &mut full, 200).map(|_| ()),
            };
            if let Err(e) = res {
                return Err(self.fail(
                    w,
                    "ingestion_succeeds",
                    &format!("ingest-{}:{}", PATH_NAMES[path as usize], sig_of_detail(&e)),
                    format!("replica {r} via {}: {e}", PATH_NAMES[path as usize]),
                ));
            }
            let got = w.applied_set(r);
            if got != all {
                let md: Vec<String> = w.reps[r].doc.get_missing_deps(&[]).iter().map(|h| short(&h.0)).collect();
                let miss: Vec<String> = all.difference(&got).take(4).map(short).collect();
                return Err(self.fail(
                    w,
                    "ingestion_complete",
                    &format!("incomplete-{}", PATH_NAMES[path as usize]),
                    format!(
                        "replica {r} via {}: applied {} of {} changes; missing e.g. {:?}; get_missing_deps={:?}",
                        PATH_NAMES[path as usize],
                        got.len(),
                        all.len(),
                        miss,
                        md
                    ),
                ));
            }
            let t = observe_replica(w, r, "C01", "final_convergence")?;
            let heads = heads_sorted(from_hashes(&w.reps[r].doc.get_heads()));
            match &reference {
                None => reference = Some((r, t, heads)),
                Some((r0, t0, h0)) => {
                    if let Some(d) = tree_diff(t0, &t) {
                        return Err(self.fail(
                            w,
                            "final_convergence",
                            &format!("state-differs:{}", sig_of_detail(&d)),
                            format!(
                                "replica {r0} (via {}) and replica {r} (via {}) hold all {} changes but differ: {d}",
                                PATH_NAMES[(w.cfg.quiesce_paths[*r0 % w.cfg.quiesce_paths.len()] % 7) as usize],
                                PATH_NAMES[path as usize],
                                all.len()
                            ),
                        ));
                    }
                    if *h0 != heads {
                        return Err(self.fail(
                            w,
                            "final_heads",
                            "heads-differ",
                            format!("replica {r0} and {r} hold all changes but heads differ"),
                        ));
                    }
                }
            }
        }
        // non-triviality: concurrency on the same object
        let order = &w.reg.order;
        let idx: std::collections::BTreeMap<Hash, usize> = order.iter().enumerate().map(|(i, h)| (*h, i)).collect();
        let words = order.len().div_ceil(64);
        let mut anc: Vec<Vec<u64>> = Vec::with_capacity(order.len());
        let mut objs: Vec<BTreeSet<&ObjRef>> = Vec::with_capacity(order.len());
        let mut f = Fnv::new();
        for (i, h) in order.iter().enumerate() {
            let c = &w.reg.changes[h];
            let mut bits = vec![0u64; words];
            for d in &c.deps {
                if let Some(j) = idx.get(d) {
                    bits[j / 64] |= 1 << (j % 64);
                    for k in 0..words {
                        bits[k] |= anc[*j][k];
                    }
                }
            }
            anc.push(bits);
            objs.push(c.ops.iter().map(|o| &o.obj).collect());
            f.u64(c.deps.len() as u64);
            f.u64(c.ops.len() as u64);
            f.u64(c.seq);
            for d in &c.deps {
                f.u64(*idx.get(d).unwrap_or(&usize::MAX) as u64);
            }
            let _ = i;
        }
        'outer: for i in 0..order.len() {
            for j in 0..i {
                let ji = anc[i][j / 64] >> (j % 64) & 1 == 1;
                if !ji && objs[i].intersection(&objs[j]).next().is_some() {
                    self.concurrent_same_obj = true;
                    break 'outer;
                }
            }
        }
        if self.concurrent_same_obj {
            w.stats.bump("probe.concurrent_same_object");
        }
        for p in &self.paths_used {
            f.u64(*p as u64);
        }
        self.digest = f.finish();
        Ok(())
    }

    fn nontrivial(&self, _w: &World) -> Option<u64> {
        if self.concurrent_same_obj && self.paths_used.len() >= 2 {
            Some(self.digest)
        } else {
            None
        }
    }
}
