//! C11 Save/load round-trips a document exactly.

use super::*;
use crate::events::*;
use crate::gen::Profile;
use crate::prng::Fnv;
use automerge::AutoCommit;

pub fn def() -> PropDef {
    PropDef {
        id: "C11",
        title: "Save/load round trip",
        level: "exploration",
        profile,
        oracle: |_cfg| Box::new(C11::default()),
        quick_runs: 24_000,
        thorough_runs: 600_000,
        panic_is_violation: false,
        rule: "run = seeded multi-replica history with saves (deflate on/off, orphans retained or not) and clean crash/restart at arbitrary points; every save is loaded back at once and compared: heads, every change's bytes, R2 tree at current and 3 historical heads, get_missing_deps when orphans are retained, and save(load(save(d))) == save(d) byte for byte; non-trivial = the saved document holds >= 64 ops; distinct by digest of the saved bytes",
        custom: None,
        abort_prone: false,
        probes: &["probe.save_checked", "probe.save_with_orphans", "probe.save_deflate", "probe.save_nodeflate", "probe.save_ge64_ops", "probe.historical_compared", "probe.many_actors_ge4"],
        fault_kinds: &["fault.crash.clean", "fault.reorder"],
    }
}

pub fn profile() -> Profile {
    Profile {
        text_conflict_prologue_permille: 120,
        replicas: (1, 4),
        events: (10, 200),
        w_save: 6,
        w_crash: 2,
        w_merge: 3,
        w_fork: 1,
        w_empty: 1,
        subset_sends: true,
        long_chain_permille: 120,
        wire: vec![WireEnc::Raw, WireEnc::Compressed],
        ..Profile::default()
    }
}

#[derive(Default)]
pub struct C11 {
    digest: Fnv,
    nontrivial: bool,
}

pub fn load_doc(bytes: &[u8], enc: Enc) -> Result<AutoCommit, String> {
    AutoCommit::load_with_options(bytes, automerge::LoadOptions::new().text_encoding(enc.to_am())).map_err(|e| format!("{e}"))
}

impl Oracle for C11 {
    fn after(&mut self, w: &mut World, ev: &Ev, out: &Outcome) -> Result<(), Violation> {
        let (r, deflate, orphans) = match (ev, out) {
            (Ev::Save { deflate, orphans, .. }, Outcome::Saved { r }) => (*r, *deflate, *orphans),
            _ => return Ok(()),
        };
        let fail = |w: &World, oracle: &str, sig: &str, d: String| violation("C11", oracle, sig, w.step, format!("replica {r} (deflate={deflate}, orphans={orphans}): {d}"));
        let bytes = w.reps[r].disk.current[0].bytes.clone();
        w.stats.bump("probe.save_checked");
        w.stats.bump(if deflate { "probe.save_deflate" } else { "probe.save_nodeflate" });
        let mut loaded = match load_doc(&bytes, w.cfg.enc) {
            Ok(d) => d,
            Err(e) => return Err(fail(w, "load_succeeds", &format!("load-failed:{}", sig_of_detail(&e)), format!("load(save()) failed: {e}"))),
        };
        // heads
        let h1 = heads_sorted(from_hashes(&w.reps[r].doc.get_heads()));
        let h2 = heads_sorted(from_hashes(&loaded.get_heads()));
        if h1 != h2 {
            return Err(fail(w, "same_heads", "heads-differ", format!("heads {:?} vs {:?}", h1.iter().map(short).collect::<Vec<_>>(), h2.iter().map(short).collect::<Vec<_>>())));
        }
        // change bytes
        let known = w.reps[r].known.clone();
        let lset: std::collections::BTreeSet<Hash> = loaded.get_changes(&[]).iter().map(|c| c.hash().0).collect();
        if lset != known {
            return Err(fail(w, "same_changes", "change-set-differs", format!("loaded document has {} changes, original {}", lset.len(), known.len())));
        }
        let mut actors = std::collections::BTreeSet::new();
        let mut ops = 0usize;
        for h in &known {
            let c = w.reg.get(h).unwrap();
            actors.insert(c.actor.clone());
            ops += c.ops.len();
            match loaded.get_change_by_hash(&automerge::ChangeHash(*h)) {
                Some(g) if g.raw_bytes() == c.raw.as_slice() => {}
                Some(_) => return Err(fail(w, "same_change_bytes", "change-bytes-differ", format!("change {} differs after reload", short(h)))),
                None => return Err(fail(w, "same_change_bytes", "change-missing", format!("change {} missing after reload", short(h)))),
            }
        }
        // state now and at historical heads
        let t1 = observe_replica(w, r, "C11", "same_state")?;
        let t2 = observe(&loaded, None).map_err(|e| fail(w, "same_state", &read_sig(&e.0), e.0.clone()))?;
        if let Some(d) = tree_diff(&t1, &t2) {
            return Err(fail(w, "same_state", &format!("state-differs:{}", sig_of_detail(&d)), format!("original vs loaded: {d}")));
        }
        for k in 0..3u32 {
            if let Some(hs) = w.pick_heads(r, w.cfg.p2.wrapping_add(k).wrapping_mul(40503)) {
                if hs.is_empty() {
                    continue;
                }
                let a = observe(&w.reps[r].doc, Some(&hs));
                let b = observe(&loaded, Some(&hs));
                w.stats.bump("probe.historical_compared");
                match (a, b) {
                    (Ok(a), Ok(b)) => {
                        if let Some(d) = tree_diff(&a, &b) {
                            return Err(fail(w, "same_historical_state", &format!("state-differs:{}", sig_of_detail(&d)), format!("at historical heads: {d}")));
                        }
                    }
                    (Err(_), Err(_)) => {}
                    (a, b) => return Err(fail(w, "same_historical_state", "historical-read-disagrees", format!("historical read succeeded on one side only: {:?} / {:?}", a.err().map(|e| e.0), b.err().map(|e| e.0)))),
                }
            }
        }
        // pending out-of-order changes
        let m1 = from_hashes(&w.reps[r].doc.get_missing_deps(&[]));
        let m2 = from_hashes(&loaded.get_missing_deps(&[]));
        if orphans {
            if !m1.is_empty() {
                w.stats.bump("probe.save_with_orphans");
            }
            if m1 != m2 {
                return Err(fail(w, "same_pending", "pending-differs", format!("get_missing_deps {:?} vs {:?} with orphans retained", m1.iter().map(short).collect::<Vec<_>>(), m2.iter().map(short).collect::<Vec<_>>())));
            }
        } else if !m2.is_empty() {
            return Err(fail(w, "orphans_dropped", "orphans-not-dropped", format!("saved without orphans but the loaded document is waiting for {:?}", m2.iter().map(short).collect::<Vec<_>>())));
        }
        // resave
        let again = loaded.save_with_options(automerge::SaveOptions { deflate, retain_orphans: orphans });
        if again != bytes {
            let at = again.iter().zip(bytes.iter()).position(|(a, b)| a != b).unwrap_or(again.len().min(bytes.len()));
            return Err(fail(w, "resave_identical", "resave-differs", format!("save(load(save(d))) differs from save(d): {} vs {} bytes, first difference at {at}", again.len(), bytes.len())));
        }
        if actors.len() >= 4 {
            w.stats.bump("probe.many_actors_ge4");
        }
        if ops >= 64 {
            w.stats.bump("probe.save_ge64_ops");
            self.nontrivial = true;
            self.digest.write(&bytes);
        }
        Ok(())
    }

    fn finish(&mut self, w: &mut World) -> Result<(), Violation> {
        for r in 0..w.n() {
            if w.reps[r].isolated.is_some() {
                continue;
            }
            let ev = Ev::Save { r: r as u8, deflate: w.cfg.p1 & (1 << r) != 0, orphans: w.cfg.p2 & (1 << r) != 0 };
            let out = w.exec(&ev);
            self.after(w, &ev, &out)?;
        }
        Ok(())
    }

    fn nontrivial(&self, _w: &World) -> Option<u64> {
        if self.nontrivial {
            Some(self.digest.finish())
        } else {
            None
        }
    }
}
