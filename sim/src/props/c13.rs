//! C13 Truncated storage loads to the last complete save (fault enumeration: every byte offset is a crash point).

use super::*;
use crate::chunks;
use crate::events::*;
use crate::gen::Profile;
use crate::prng::Fnv;
use automerge::AutoCommit;
use std::collections::BTreeSet;

pub fn def() -> PropDef {
    PropDef {
        id: "C13",
        title: "Truncated storage",
        level: "fault_enumeration",
        profile,
        oracle: |_cfg| Box::new(C13::default()),
        quick_runs: 1_600,
        thorough_runs: 40_000,
        panic_is_violation: true,
        rule: "case = one append-only file (a save followed by incremental saves, or a file of change chunks only, possibly with retained orphans) produced by a seeded history, cut at EVERY byte offset; each cut is loaded with partial loads allowed (must equal the document holding exactly the chunks fully inside the cut: applied set, heads, and state at sampled cuts; empty document for the empty prefix; error inside the first chunk) and strictly (Ok only on chunk boundaries); evaluations counts runs, 'loads' counts the enumerated crash points; non-trivial = file has >= 3 chunks and cuts strictly inside a chunk after the first were exercised; distinct by digest of the chunk layout",
        custom: None,
        abort_prone: false,
        probes: &["enum.files", "enum.cuts", "enum.cuts_inside_later_chunk", "enum.cuts_on_boundary", "probe.file_starts_with_change_chunk", "probe.file_with_orphans", "probe.trees_compared"],
        fault_kinds: &["enum.cuts"],
    }
}

pub fn profile() -> Profile {
    Profile {
        replicas: (1, 2),
        events: (12, 90),
        w_save: 1,
        w_save_inc: 12,
        w_commit: 16,
        w_merge: 3,
        w_send: 6,
        w_deliver: 8,
        w_fork: 0,
        subset_sends: true,
        long_chain_permille: 0,
        ..Profile::default()
    }
}

#[derive(Default)]
pub struct C13 {
    layout: Fnv,
    nontrivial: bool,
}

fn load_ignore(bytes: &[u8], enc: Enc) -> Result<AutoCommit, String> {
    AutoCommit::load_with_options(
        bytes,
        automerge::LoadOptions::new().text_encoding(enc.to_am()).on_partial_load(automerge::OnPartialLoad::Ignore),
    )
    .map_err(|e| format!("{e}"))
}

fn load_strict(bytes: &[u8], enc: Enc) -> Result<AutoCommit, String> {
    AutoCommit::load_with_options(
        bytes,
        automerge::LoadOptions::new().text_encoding(enc.to_am()).on_partial_load(automerge::OnPartialLoad::Error),
    )
    .map_err(|e| format!("{e}"))
}

impl C13 {
    /// `sets[i]` = changes carried by chunk i
    fn enumerate(&mut self, w: &mut World, file: &[u8], sets: &[BTreeSet<Hash>], label: &str) -> Result<(), Violation> {
        let step = w.step;
        let fail = |oracle: &str, sig: &str, d: String| violation("C13", oracle, sig, step, format!("{label}: {d}"));
        let chunks = chunks::parse_chunks(file);
        if chunks.len() != sets.len() || chunks.last().map(|c| c.end) != Some(file.len()) {
            w.harness_error = Some(format!("C13: chunk parser found {} chunks ending at {:?}, harness wrote {} in {} bytes", chunks.len(), chunks.last().map(|c| c.end), sets.len(), file.len()));
            return Ok(());
        }
        w.stats.bump("enum.files");
        let enc = w.cfg.enc;
        let bounds: Vec<usize> = chunks.iter().map(|c| c.end).collect();
        let mut expected_cache: Vec<Option<(BTreeSet<Hash>, Vec<Hash>)>> = vec![None; chunks.len() + 1];
        for cut in 0..=file.len() {
            crate::monitor::set_subcontext(&format!("cut {cut} of {}", file.len()));
            w.stats.bump("enum.cuts");
            let complete = bounds.iter().filter(|b| **b <= cut).count();
            let on_boundary = cut == 0 || bounds.contains(&cut);
            if on_boundary {
                w.stats.bump("enum.cuts_on_boundary");
            } else if complete >= 1 {
                w.stats.bump("enum.cuts_inside_later_chunk");
            }
            let prefix = &file[..cut];
            // expected content
            if expected_cache[complete].is_none() {
                let mut d: BTreeSet<Hash> = BTreeSet::new();
                for s in &sets[..complete] {
                    d.extend(s.iter().cloned());
                }
                let a = w.reg.closed_subset(&d);
                let heads = heads_sorted(w.reg.heads_of(&a));
                expected_cache[complete] = Some((a, heads));
            }
            let (want_set, want_heads) = expected_cache[complete].clone().unwrap();
            // partial loads allowed
            match load_ignore(prefix, enc) {
                Ok(mut d) => {
                    if complete == 0 && cut > 0 {
                        return Err(fail("ignore_errors_inside_first_chunk", "partial-load-ok-inside-first-chunk", format!("cut at {cut} inside the first chunk (ends at {}) loaded successfully", bounds[0])));
                    }
                    let got: BTreeSet<Hash> = d.get_changes(&[]).iter().map(|c| c.hash().0).collect();
                    let heads = heads_sorted(from_hashes(&d.get_heads()));
                    if got != want_set || heads != want_heads {
                        return Err(fail(
                            "ignore_loads_last_complete",
                            if got.len() < want_set.len() { "partial-load-drops-complete-chunks" } else { "partial-load-wrong-set" },
                            format!(
                                "cut at {cut} (chunk ends {:?}): {} chunk(s) fully inside the cut carry {} applicable changes, loaded document has {}",
                                bounds,
                                complete,
                                want_set.len(),
                                got.len()
                            ),
                        ));
                    }
                    // state comparison at the first cut after each boundary and at the cut just before the next one
                    let next_bound = bounds.get(complete).cloned().unwrap_or(file.len());
                    if on_boundary || cut + 1 == next_bound {
                        let t = observe(&d, None).map_err(|e| fail("ignore_state", "read-inconsistency", e.0.clone()))?;
                        let want = interpret(&w.reg, &want_set, enc);
                        w.stats.bump("probe.trees_compared");
                        if let Some(dd) = tree_diff(&want, &t) {
                            return Err(fail("ignore_state", &format!("state-differs:{}", sig_of_detail(&dd)), format!("cut at {cut}: {dd}")));
                        }
                    }
                }
                Err(e) => {
                    if complete >= 1 || cut == 0 {
                        return Err(fail(
                            "ignore_loads_last_complete",
                            if cut == 0 { "partial-load-fails-on-empty-prefix" } else { "partial-load-fails-after-first-chunk" },
                            format!("cut at {cut} (chunk ends {:?}): load with partial loads allowed failed: {e}", bounds),
                        ));
                    }
                }
            }
            // strict
            match load_strict(prefix, enc) {
                Ok(_) => {
                    if !on_boundary {
                        return Err(fail("strict_only_on_boundaries", "strict-load-ok-inside-chunk", format!("strict load succeeded for a cut at {cut}, chunk ends are {:?}", bounds)));
                    }
                }
                Err(e) => {
                    // on a boundary whose prefix is dep-closed the strict load must succeed
                    if on_boundary && cut > 0 {
                        let mut d: BTreeSet<Hash> = BTreeSet::new();
                        for s in &sets[..complete] {
                            d.extend(s.iter().cloned());
                        }
                        if d == want_set {
                            return Err(fail("strict_ok_on_closed_boundary", "strict-load-fails-on-boundary", format!("strict load of the first {complete} complete chunk(s) ({cut} bytes) failed: {e}")));
                        }
                    }
                }
            }
        }
        if chunks.len() >= 3 {
            self.nontrivial = true;
        }
        self.layout.u64(chunks.len() as u64);
        for c in &chunks {
            self.layout.u64((c.end - c.start) as u64);
            self.layout.u64(c.typ as u64);
        }
        Ok(())
    }
}

impl Oracle for C13 {
    fn after(&mut self, _w: &mut World, _ev: &Ev, _out: &Outcome) -> Result<(), Violation> {
        Ok(())
    }

    fn finish(&mut self, w: &mut World) -> Result<(), Violation> {
        let n = w.n();
        let r = (w.cfg.p1 as usize) % n;
        if w.reps[r].isolated.is_some() {
            return Ok(());
        }
        // make sure the file ends with what the writer has
        w.exec(&Ev::SaveInc { r: r as u8 });
        let pieces = w.reps[r].disk.current.clone();
        if pieces.is_empty() {
            return Ok(());
        }
        // variant A: the file as written (document chunk first)
        let mut file = Vec::new();
        let mut sets: Vec<BTreeSet<Hash>> = Vec::new();
        let mut has_orphans = false;
        for p in &pieces {
            let cs = chunks::parse_chunks(&p.bytes);
            if cs.last().map(|c| c.end) != Some(p.bytes.len()) {
                w.harness_error = Some("C13: a written piece is not a whole number of chunks".into());
                return Ok(());
            }
            for c in &cs {
                let set: BTreeSet<Hash> = if c.typ == 0 {
                    has_orphans |= !p.orphans.is_empty();
                    p.writer_set.union(&p.orphans).cloned().collect()
                } else {
                    let h = chunks::chunk_digest(&p.bytes, c);
                    if !w.reg.contains(&h) {
                        w.harness_error = Some(format!("C13: change chunk {} not in registry", short(&h)));
                        return Ok(());
                    }
                    [h].into_iter().collect()
                };
                sets.push(set);
            }
            file.extend_from_slice(&p.bytes);
        }
        if file.len() > 6000 {
            return Ok(());
        }
        if has_orphans {
            w.stats.bump("probe.file_with_orphans");
        }
        self.enumerate(w, &file, &sets, "save + incremental pieces")?;
        // variant B: a file made of change chunks only (what save_after(&[]) + later pieces looks like)
        if w.cfg.p2 % 3 == 0 {
            let first: Vec<Hash> = w.reg.topo(&pieces[0].writer_set);
            let mut file_b = Vec::new();
            let mut sets_b = Vec::new();
            for h in &first {
                file_b.extend_from_slice(&w.reg.changes[h].raw);
                sets_b.push([*h].into_iter().collect());
            }
            let skip = chunks::parse_chunks(&pieces[0].bytes).len();
            file_b.extend_from_slice(&file[pieces[0].bytes.len()..]);
            sets_b.extend(sets[skip..].iter().cloned());
            if !file_b.is_empty() && file_b.len() <= 6000 {
                w.stats.bump("probe.file_starts_with_change_chunk");
                self.enumerate(w, &file_b, &sets_b, "change chunks only")?;
            }
        }
        Ok(())
    }

    fn nontrivial(&self, _w: &World) -> Option<u64> {
        if self.nontrivial {
            Some(self.layout.finish())
        } else {
            None
        }
    }
}
