//! C38 Actor sequence numbers stay unique.

use super::*;
use crate::chunks;
use crate::events::*;
use crate::gen::Profile;
use crate::prng::Fnv;
use automerge::AutoCommit;
use std::collections::{BTreeMap, BTreeSet};

pub fn def() -> PropDef {
    PropDef {
        id: "C38",
        title: "Actor sequence numbers stay unique",
        level: "exploration",
        profile,
        oracle: |_cfg| Box::new(C38::default()),
        quick_runs: 120_000,
        thorough_runs: 800_000,
        panic_is_violation: false,
        rule: "run = seeded history with REUSED actor ids (forks that keep the actor, restarts from stale snapshots that keep the actor) followed by divergent commits; the conflicting branches reach each other before, after and between local commits, directly (apply_changes single/batch), through load_incremental streams, merge, sync sessions and the held-back queue; after every event on every touched replica: (actor, seq) pairs of the applied changes are unique and contiguous, heads = maximal applied changes, state = R1(applied set), periodically load(save()) is equal; right after a local commit claiming (a, n) the saved orphans hold no change of actor a with seq >= n; non-trivial = a change colliding with an applied (actor, seq) was offered to a replica; distinct by digest of the (offer path, outcome) sequence",
        custom: None,
        abort_prone: false,
        probes: &["probe.conflicting_offer", "probe.conflict_rejected_err", "probe.conflict_discarded_silently", "probe.conflict_via_stream", "probe.conflict_via_sync", "probe.conflict_via_merge", "probe.orphans_inspected", "probe.reload_checked"],
        fault_kinds: &["fault.actor_reuse", "fault.reorder", "fault.dup", "fault.crash.stale_snapshot"],
    }
}

pub fn profile() -> Profile {
    Profile {
        replicas: (2, 4),
        events: (10, 120),
        w_fork: 1,
        w_fork_same_actor: 14,
        w_merge: 4,
        w_send: 12,
        w_deliver: 12,
        w_dup: 1,
        w_save: 3,
        w_fsync: 3,
        w_crash: 2,
        crash_clean: 1,
        crash_stale: 3,
        keep_actor_permille: 800,
        w_connect: 3,
        w_gen: 8,
        w_recv: 8,
        w_disconnect: 1,
        subset_sends: true,
        wire: vec![WireEnc::Raw, WireEnc::Compressed, WireEnc::FullSave, WireEnc::Reencode],
        long_chain_permille: 0,
        ..Profile::default()
    }
}

#[derive(Default)]
pub struct C38 {
    nontrivial: bool,
    digest: Fnv,
    checks: u64,
}

pub fn orphans_of(save_bytes: &[u8]) -> Vec<(Vec<u8>, u64, Hash)> {
    let cs = chunks::parse_chunks(save_bytes);
    let mut out = Vec::new();
    for c in cs.iter().skip(1) {
        if let Ok(ch) = automerge::Change::from_bytes(save_bytes[c.start..c.end].to_vec()) {
            out.push((ch.actor_id().to_bytes().to_vec(), ch.seq(), ch.hash().0));
        }
    }
    out
}

impl C38 {
    fn check(&mut self, w: &mut World, r: usize, deep: bool) -> Result<(), Violation> {
        if w.reps[r].isolated.is_some() || w.reps[r].doc.pending_ops() > 0 {
            return Ok(());
        }
        let step = w.step;
        let fail = |oracle: &str, sig: &str, d: String| violation("C38", oracle, sig, step, format!("replica {r}: {d}"));
        self.checks += 1;
        let changes = w.reps[r].doc.document().get_changes(&[]);
        let mut by_actor: BTreeMap<Vec<u8>, Vec<u64>> = BTreeMap::new();
        let mut set: BTreeSet<Hash> = BTreeSet::new();
        for c in &changes {
            by_actor.entry(c.actor_id().to_bytes().to_vec()).or_default().push(c.seq());
            set.insert(c.hash().0);
        }
        for (a, seqs) in by_actor.iter_mut() {
            seqs.sort();
            for (i, s) in seqs.iter().enumerate() {
                if *s != i as u64 + 1 {
                    let dup = seqs.windows(2).any(|x| x[0] == x[1]);
                    return Err(fail(
                        "seq_unique_contiguous",
                        if dup { "duplicate-actor-seq" } else { "seq-gap" },
                        format!("actor {} has sequence numbers {:?} in the applied changes", hex::encode(a), seqs),
                    ));
                }
            }
        }
        if set != w.reps[r].known {
            // harvest drift would be a harness bug; re-sync from the full report
            w.reharvest(r);
        }
        let heads = heads_sorted(from_hashes(&w.reps[r].doc.document().get_heads()));
        let want = heads_sorted(w.reg.heads_of(&set));
        if heads != want {
            return Err(fail("heads_are_maximal", "heads-not-maximal", format!("heads {:?} vs maximal changes {:?}", heads.iter().map(short).collect::<Vec<_>>(), want.iter().map(short).collect::<Vec<_>>())));
        }
        let got = observe_replica(w, r, "C38", "state_is_r1_of_own_set")?;
        let model = interpret(&w.reg, &set, w.cfg.enc);
        if let Some(d) = tree_diff(&model, &got) {
            return Err(fail("state_is_r1_of_own_set", &format!("state-vs-model:{}", sig_of_detail(&d)), format!("with {} applied changes: {d}", set.len())));
        }
        if deep {
            let bytes = w.reps[r].doc.document().save();
            match AutoCommit::load_with_options(&bytes, automerge::LoadOptions::new().text_encoding(w.cfg.enc.to_am())) {
                Ok(d2) => {
                    w.stats.bump("probe.reload_checked");
                    let t2 = observe(&d2, None).map_err(|e| fail("reload_equal", "read-inconsistency", e.0.clone()))?;
                    if let Some(d) = tree_diff(&got, &t2) {
                        return Err(fail("reload_equal", &format!("reload-differs:{}", sig_of_detail(&d)), d));
                    }
                }
                Err(e) => return Err(fail("reload_succeeds", &format!("reload-failed:{}", sig_of_detail(&format!("{e}"))), format!("load(save()) failed: {e}"))),
            }
        }
        Ok(())
    }

    /// does the offered set contain a change colliding with an applied (actor, seq)?
    fn note_offer(&mut self, w: &mut World, r: usize, offered: &[Hash], path: &str, result_ok: bool) {
        let applied: BTreeMap<(Vec<u8>, u64), Hash> = w.reps[r].known.iter().filter_map(|h| w.reg.get(h)).map(|c| ((c.actor.clone(), c.seq), c.hash)).collect();
        let conflict = offered.iter().filter_map(|h| w.reg.get(h)).any(|c| applied.get(&(c.actor.clone(), c.seq)).map_or(false, |h| *h != c.hash));
        if conflict {
            self.nontrivial = true;
            w.stats.bump("probe.conflicting_offer");
            w.stats.bump(&format!("probe.conflict_via_{path}"));
            w.stats.bump(if result_ok { "probe.conflict_discarded_silently" } else { "probe.conflict_rejected_err" });
            self.digest.str(path);
            self.digest.u64(result_ok as u64);
            self.digest.u64(w.step);
            self.digest.u64(offered.len() as u64);
            self.digest.u64(w.reps[r].known.len() as u64);
        }
    }
}

impl Oracle for C38 {
    fn after(&mut self, w: &mut World, _ev: &Ev, out: &Outcome) -> Result<(), Violation> {
        match out {
            Outcome::Delivered { to, hashes, result, stream } => {
                let hs = hashes.clone();
                self.note_offer(w, *to, &hs, if *stream { "stream" } else { "direct" }, result.is_ok());
                // "a change that would create such a pair is rejected" - and only such a change: a DuplicateSeqNumber error
                // for an offer none of whose changes collides with an applied change, a held change or another change of the
                // same offer is a rejection of honest data
                if let Err(e) = result {
                    if e.to_lowercase().contains("duplicate") && !w.reps[*to].tainted && w.reps[*to].isolated.is_none() {
                        let mut seen: BTreeMap<(Vec<u8>, u64), Hash> = w.reps[*to].known.iter().filter_map(|h| w.reg.get(h)).map(|c| ((c.actor.clone(), c.seq), c.hash)).collect();
                        let bytes = w.reps[*to].doc.document().save_with_options(automerge::SaveOptions { deflate: false, retain_orphans: true });
                        for (a, sq, h) in orphans_of(&bytes) {
                            seen.entry((a, sq)).or_insert(h);
                        }
                        let mut collision = false;
                        let mut all_known = true;
                        for h in &hs {
                            match w.reg.get(h) {
                                Some(c) => match seen.get(&(c.actor.clone(), c.seq)) {
                                    Some(h2) if *h2 != c.hash => collision = true,
                                    Some(_) => {}
                                    None => {
                                        seen.insert((c.actor.clone(), c.seq), c.hash);
                                    }
                                },
                                None => all_known = false,
                            }
                        }
                        w.stats.bump("probe.duplicate_rejections_examined");
                        if !collision && all_known {
                            return Err(violation(
                                "C38",
                                "only_conflicting_changes_rejected",
                                "spurious-duplicate-seq",
                                w.step,
                                format!("replica {to}: an offer of {} change(s) was rejected with {e}, but none of them shares (actor, seq) with a different applied, held or offered change", hs.len()),
                            ));
                        }
                    }
                }
                self.check(w, *to, w.step % 5 == 0)
            }
            Outcome::Merged { from, to, result } => {
                let hs: Vec<Hash> = w.reps[*from].known.iter().cloned().collect();
                self.note_offer(w, *to, &hs, "merge", result.is_ok());
                self.check(w, *to, w.step % 5 == 0)
            }
            Outcome::SyncRecv { from, to, result } => {
                let hs: Vec<Hash> = w.reps[*from].known.iter().cloned().collect();
                self.note_offer(w, *to, &hs, "sync", result.is_ok());
                self.check(w, *to, false)
            }
            Outcome::Committed { r, hash } => {
                self.check(w, *r, false)?;
                if let Some(h) = hash {
                    if let Some(c) = w.reg.get(h).cloned() {
                        let bytes = w.reps[*r].doc.document().save_with_options(automerge::SaveOptions { deflate: false, retain_orphans: true });
                        w.stats.bump("probe.orphans_inspected");
                        for (a, s, oh) in orphans_of(&bytes) {
                            if a == c.actor && s >= c.seq {
                                return Err(violation(
                                    "C38",
                                    "local_commit_discards_conflicting_queue",
                                    "conflicting-orphan-survives-commit",
                                    w.step,
                                    format!("replica {r} committed seq {} of actor {} but still holds queued change {} (seq {s}) of the same actor", c.seq, hex::encode(&a), short(&oh)),
                                ));
                            }
                        }
                    }
                }
                Ok(())
            }
            Outcome::Forked { new, .. } => self.check(w, *new, false),
            Outcome::Restarted { r, .. } => self.check(w, *r, true),
            _ => Ok(()),
        }
    }

    fn finish(&mut self, w: &mut World) -> Result<(), Violation> {
        for r in 0..w.n() {
            if w.reps[r].isolated.is_none() {
                w.commit_pending(r);
                self.check(w, r, true)?;
            }
        }
        Ok(())
    }

    fn nontrivial(&self, _w: &World) -> Option<u64> {
        if self.nontrivial {
            Some(self.digest.finish())
        } else {
            None
        }
    }
}
