//! C14 Corrupted storage is rejected (fault enumeration: every single-bit flip and byte overwrite).

use super::*;
use crate::chunks;
use crate::events::*;
use crate::gen::Profile;
use crate::prng::Fnv;
use automerge::AutoCommit;

pub fn def() -> PropDef {
    PropDef {
        id: "C14",
        title: "Corrupted storage is rejected",
        level: "fault_enumeration",
        profile,
        oracle: |_cfg| Box::new(C14::default()),
        quick_runs: 4_000,
        thorough_runs: 120_000,
        panic_is_violation: true,
        rule: "case = one stored artifact (save with DEFLATE, save without, an incremental piece of change chunks, a bundle) of a seeded history, of at most 2 KiB, with EVERY single-bit flip and every byte overwritten by 00/7F/80/FF; each mutant is given to load: it must fail; a mutant that loads is reported (as 'different document' or 'accepted') unless the harness recomputes the SHA-256 prefix and finds that the stored checksum still matches (2^-32 collision); evaluations counts runs, 'enum.mutants' the loads; non-trivial = artifact >= 64 bytes fully enumerated; distinct by artifact digest",
        custom: None,
        abort_prone: true,
        probes: &["enum.artifacts", "enum.mutants", "enum.bitflips", "enum.overwrites", "probe.artifact.save_deflate", "probe.artifact.save_raw", "probe.artifact.incremental", "probe.artifact.bundle", "probe.artifact.changes_compressed", "probe.rejected"],
        fault_kinds: &["enum.bitflips", "enum.overwrites"],
    }
}

pub fn profile() -> Profile {
    Profile {
        replicas: (1, 2),
        events: (8, 60),
        w_commit: 16,
        w_merge: 3,
        w_fork: 0,
        long_chain_permille: 0,
        ..Profile::default()
    }
}

#[derive(Default)]
pub struct C14 {
    digest: Fnv,
    nontrivial: bool,
}

#[derive(Clone, Copy, PartialEq)]
enum Kind {
    Doc,
    Changes,
    Bundle,
}

impl C14 {
    fn enumerate(&mut self, w: &mut World, original: &[u8], kind: Kind, label: &str, base_tree: &Tree) -> Result<(), Violation> {
        let step = w.step;
        if original.len() > if label == "changes_compressed" { 4096 } else { 2048 } || original.is_empty() {
            return Ok(());
        }
        let fail = |oracle: &str, sig: &str, d: String| violation("C14", oracle, sig, step, format!("{label} ({} bytes): {d}", original.len()));
        // sanity: the unmutated artifact loads
        let enc = w.cfg.enc;
        let load = |b: &[u8]| AutoCommit::load_with_options(b, automerge::LoadOptions::new().text_encoding(enc.to_am()));
        match load(original) {
            Ok(d) => {
                let t = observe(&d, None).map_err(|e| fail("original_loads", "read-inconsistency", e.0.clone()))?;
                if tree_diff(base_tree, &t).is_some() {
                    w.harness_error = Some(format!("C14: unmutated {label} loads to a different state"));
                    return Ok(());
                }
            }
            Err(e) => {
                w.harness_error = Some(format!("C14: unmutated {label} does not load: {e}"));
                return Ok(());
            }
        }
        w.stats.bump("enum.artifacts");
        w.stats.bump(&format!("probe.artifact.{label}"));
        let mut buf = original.to_vec();
        let _ = kind;
        for pos in 0..original.len() {
            let orig = original[pos];
            let mut variants: Vec<(u8, bool)> = (0..8).map(|b| (orig ^ (1 << b), true)).collect();
            for v in [0x00u8, 0x7f, 0x80, 0xff] {
                if v != orig && !variants.iter().any(|(x, _)| *x == v) {
                    variants.push((v, false));
                }
            }
            for (val, is_flip) in variants {
                buf[pos] = val;
                w.stats.bump("enum.mutants");
                w.stats.bump(if is_flip { "enum.bitflips" } else { "enum.overwrites" });
                crate::monitor::set_subcontext(&format!("{label} byte {pos} := {val:#04x}"));
                let mut accepted: Option<(String, Option<AutoCommit>)> = None;
                match load(&buf) {
                    Err(_) => {}
                    Ok(d) => accepted = Some(("load".into(), Some(d))),
                }
                if let Some((via, doc)) = accepted {
                    // exemption decided by computation: does the stored checksum still match the mutated chunk?
                    let cs = chunks::parse_chunks(&buf);
                    let collision = !cs.is_empty()
                        && cs.last().map(|c| c.end) == Some(buf.len())
                        && cs.iter().all(|c| chunks::expected_checksum(&buf, c) == Some(chunks::stored_checksum(&buf, c)));
                    let in_compressed_chunk = cs.iter().any(|c| c.typ == 2 && c.start <= pos && pos < c.end);
                    if collision && in_compressed_chunk {
                        // not a 2^-32 accident: the checksum of a compressed change covers the *inflated* bytes, so a flipped bit
                        // that DEFLATE does not interpret (or that inflates to the same bytes) cannot be noticed
                        w.stats.bump("probe.deflate_slack_accepted");
                        let same = match &doc {
                            Some(d) => observe(d, None).map(|t| tree_diff(base_tree, &t).is_none()).unwrap_or(false),
                            None => true,
                        };
                        let what = if is_flip { "bit flip" } else { "byte overwrite" };
                        return Err(fail(
                            "corruption_rejected",
                            if same { "mutant-accepted:compressed-change:inflates-to-the-same-bytes" } else { "mutant-loads-as-different-document" },
                            format!("{what} at byte {pos} ({orig:#04x} -> {val:#04x}) inside a compressed change chunk was accepted by {via}: the chunk still inflates to bytes with the stored checksum"),
                        ));
                    } else if collision {
                        w.stats.bump("probe.checksum_collision");
                    } else {
                        let differs = match doc {
                            Some(d) => match observe(&d, None) {
                                Ok(t) => tree_diff(base_tree, &t).is_some(),
                                Err(_) => true,
                            },
                            None => false,
                        };
                        let what = if is_flip { "bit flip" } else { "byte overwrite" };
                        return Err(fail(
                            "corruption_rejected",
                            if differs { "mutant-loads-as-different-document" } else { "mutant-accepted" },
                            format!("{what} at byte {pos} ({orig:#04x} -> {val:#04x}) was accepted by {via}{}", if differs { " and yields a different document" } else { "" }),
                        ));
                    }
                } else {
                    w.stats.bump("probe.rejected");
                }
            }
            buf[pos] = orig;
        }
        if original.len() >= 64 {
            self.nontrivial = true;
            self.digest.write(original);
        }
        Ok(())
    }
}

impl Oracle for C14 {
    fn after(&mut self, _w: &mut World, _ev: &Ev, _out: &Outcome) -> Result<(), Violation> {
        Ok(())
    }

    fn finish(&mut self, w: &mut World) -> Result<(), Violation> {
        let r = (w.cfg.p1 as usize) % w.n();
        if w.reps[r].isolated.is_some() {
            return Ok(());
        }
        w.commit_pending(r);
        if w.reps[r].known.is_empty() {
            return Ok(());
        }
        let tree = observe_replica(w, r, "C14", "original_reads")?;
        // a fifth artifact: the history as the bytes an application gets from Change::bytes() - changes above 256 bytes come
        // out as *compressed* change chunks (type 2), whose stored checksum is that of the inflated chunk. Only taken when
        // at least one chunk really is compressed; otherwise the run falls back to one of the four other artifacts.
        if w.cfg.p2 % 5 == 4 {
            let mut bytes = Vec::new();
            for mut c in w.reps[r].doc.document().get_changes(&[]) {
                bytes.extend_from_slice(&c.bytes());
            }
            if bytes.len() <= 4096 && chunks::parse_chunks(&bytes).iter().any(|c| c.typ == 2) {
                return self.enumerate(w, &bytes, Kind::Changes, "changes_compressed", &tree);
            }
        }
        let which = (w.cfg.p2 / 5) % 4;
        match which {
            0 => {
                let b = w.reps[r].doc.document().save_with_options(automerge::SaveOptions { deflate: true, retain_orphans: true });
                self.enumerate(w, &b, Kind::Doc, "save_deflate", &tree)
            }
            1 => {
                let b = w.reps[r].doc.document().save_with_options(automerge::SaveOptions { deflate: false, retain_orphans: true });
                self.enumerate(w, &b, Kind::Doc, "save_raw", &tree)
            }
            2 => {
                // the whole history as change chunks (what save_after(&[]) writes); small histories only
                let b = w.reps[r].doc.document().save_after(&[]);
                self.enumerate(w, &b, Kind::Changes, "incremental", &tree)
            }
            _ => {
                let hs: Vec<automerge::ChangeHash> = w.reps[r].known.iter().map(|h| automerge::ChangeHash(*h)).collect();
                match w.reps[r].doc.bundle(hs) {
                    Ok(b) => {
                        let bytes = b.bytes().to_vec();
                        self.enumerate(w, &bytes, Kind::Bundle, "bundle", &tree)
                    }
                    Err(_) => Ok(()),
                }
            }
        }
    }

    fn nontrivial(&self, _w: &World) -> Option<u64> {
        if self.nontrivial {
            Some(self.digest.finish())
        } else {
            None
        }
    }
}
