//! C15 Untrusted bytes and strings never crash the library.
//! C17 Untrusted input cannot exhaust memory or time (same workload, resource oracle).

use super::*;
use crate::events::*;
use crate::gen::Profile;
use crate::prng::Fnv;

pub fn def() -> PropDef {
    PropDef {
        id: "C15",
        title: "Untrusted bytes and strings never crash",
        level: "exploration",
        profile,
        oracle: |_cfg| Box::new(Byz::new("C15")),
        quick_runs: 6_000,
        thorough_runs: 300_000,
        panic_is_violation: true,
        rule: "run = a running multi-replica simulation (gossip, sync sessions, saves) in which every inbound seam receives corrupted input: gossip packets, load_incremental streams, sync messages processed by a peer mid-session (followed by generating the reply), files at restart, and small encodings (object ids, cursors, actor ids, hashes, sync states, bloom filters as bytes and strings; import/import_obj; Change::from_bytes; Bundle::try_from; rescue; load). Mutations: bit/byte flips, truncation, extension, garbage, structural LEB fields set to extremes, LEBs written into column data, column splices, column-spec edits, invalid UTF-8, with the checksum recomputed in ~70% of cases. Each run executes in a forked child under a 1 GiB/768 MiB allocator cap and a 10 s watchdog; a panic, abort, cap hit or timeout is a violation. non-trivial = at least one checksum-fixed structural mutant was processed; distinct by digest of the (seam, mutation) descriptions",
        custom: None,
        abort_prone: true,
        probes: &["probe.corrupt_input_accepted", "probe.corrupt_sync_decoded", "probe.fuzzed_small_input_accepted", "probe.byz_inputs", "probe.byz_checksum_fixed"],
        fault_kinds: &["fault.corrupt.*", "fault.corrupt_sync.*", "fault.corrupt_disk.*", "fault.id_fuzz.*"],
    }
}

pub fn def_c17() -> PropDef {
    PropDef {
        id: "C17",
        title: "Untrusted input cannot exhaust memory or time",
        level: "exploration",
        profile: profile_c17,
        oracle: |_cfg| Box::new(Byz::new("C17")),
        quick_runs: 6_000,
        thorough_runs: 300_000,
        panic_is_violation: false,
        rule: "run = the byzantine-seam workload of C15 restricted to inputs of a few kilobytes, with emphasis on count / length / parameter fields set to extreme values (0, 1, 2^32-1, 2^32, 2^63, 2^64-1, +-1), executed in a forked child with a counting allocator: a single request above 1 GiB or more than 768 MiB of additional live memory aborts the child deterministically (marker), and a run that needs more than 10 s is killed; either is a violation (normal runs need < 50 ms and a few MiB, so the limits are 2-3 orders of magnitude above anything polynomial-and-sane). The measured peak and largest request over all runs are in the evidence. non-trivial = at least one extreme-field mutant was processed; distinct by digest of the mutation descriptions",
        custom: None,
        abort_prone: true,
        probes: &["probe.byz_inputs", "probe.byz_checksum_fixed", "meter.runs"],
        fault_kinds: &["fault.corrupt.*", "fault.corrupt_sync.*", "fault.corrupt_disk.*", "fault.id_fuzz.*"],
    }
}

pub fn profile() -> Profile {
    Profile {
        replicas: (2, 3),
        events: (10, 110),
        w_edit: 40,
        w_commit: 12,
        w_send: 10,
        w_deliver: 6,
        w_merge: 2,
        w_save: 2,
        w_save_inc: 3,
        w_connect: 4,
        w_gen: 10,
        w_recv: 8,
        w_disconnect: 1,
        w_deliver_corrupt: 6,
        w_recv_corrupt: 5,
        w_crash_corrupt: 2,
        w_id_fuzz: 8,
        partial_ignore_permille: 400,
        wire: vec![WireEnc::Raw, WireEnc::Compressed, WireEnc::Bundle, WireEnc::FullSave],
        long_chain_permille: 0,
        e_block: 2,
        ..Profile::default()
    }
}

pub fn profile_c17() -> Profile {
    use crate::mutate::MutClass::*;
    Profile {
        replicas: (1, 2),
        events: (8, 60),
        // deep two-parent histories under a hundred changes: the receiver's work per byte of input at its worst
        ladder_prologue_permille: 60,
        mut_classes: vec![FieldExtreme, FieldExtreme, FieldExtreme, DataLeb, SpecMutate, ColumnSplice, BitFlip, Garbage, Coherent],
        fix_checksum_permille: 900,
        ..profile()
    }
}

pub struct Byz {
    id: &'static str,
    fixed: u64,
    digest: Fnv,
}

impl Byz {
    pub fn new(id: &'static str) -> Byz {
        Byz { id, fixed: 0, digest: Fnv::new() }
    }
}

impl Oracle for Byz {
    fn after(&mut self, w: &mut World, ev: &Ev, out: &Outcome) -> Result<(), Violation> {
        let _ = self.id;
        if let Outcome::Byz { what, desc, .. } = out {
            w.stats.bump("probe.byz_inputs");
            let fixed = match ev {
                Ev::DeliverCorrupt { m, .. } | Ev::RecvCorrupt { m, .. } | Ev::CrashCorrupt { m, .. } | Ev::IdFuzz { m, .. } => m.fix_checksum && !matches!(m.class, crate::mutate::MutClass::Garbage | crate::mutate::MutClass::Truncate),
                _ => false,
            };
            if fixed {
                self.fixed += 1;
                w.stats.bump("probe.byz_checksum_fixed");
            }
            self.digest.str(what);
            self.digest.str(&sig_of_detail(desc));
        }
        if let Outcome::Restarted { loaded, .. } = out {
            if loaded.is_ok() && matches!(ev, Ev::CrashCorrupt { .. }) {
                w.stats.bump("probe.corrupt_file_loaded");
            }
        }
        Ok(())
    }

    fn finish(&mut self, w: &mut World) -> Result<(), Violation> {
        // the replicas keep being used after the byzantine inputs: reads, save, reload
        for r in 0..w.n() {
            if w.reps[r].isolated.is_some() {
                continue;
            }
            crate::monitor::set_subcontext("final reads/save/load on a replica that received byzantine input");
            w.commit_pending(r);
            let _ = observe(&w.reps[r].doc, None);
            let bytes = w.reps[r].doc.document().save();
            let _ = automerge::Automerge::load(&bytes);
        }
        Ok(())
    }

    fn nontrivial(&self, _w: &World) -> Option<u64> {
        if self.fixed > 0 {
            Some(self.digest.finish())
        } else {
            None
        }
    }
}
