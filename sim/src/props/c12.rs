//! C12 Incremental saves and loads compose.

use super::c11::load_doc;
use super::*;
use crate::events::*;
use crate::gen::Profile;
use crate::prng::{Fnv, Rng};

pub fn def() -> PropDef {
    PropDef {
        id: "C12",
        title: "Incremental saves compose",
        level: "exploration",
        profile,
        oracle: |_cfg| Box::new(C12::default()),
        quick_runs: 60_000,
        thorough_runs: 600_000,
        panic_is_violation: false,
        rule: "run = seeded multi-replica history with save / save_incremental / save_after at arbitrary points building an append-only file per replica; after every write the concatenation of the pieces must load to the writer's state, and a follower equal to the writer at an earlier piece, fed the later pieces through load_incremental in a shuffled order with duplicates, must become equal; feeding them again must change nothing; non-trivial = file has >= 3 pieces and the follower started before the last two; distinct by digest of the piece layout",
        custom: None,
        abort_prone: false,
        probes: &["probe.concat_loaded", "probe.follower_checked", "probe.follower_reordered", "probe.follower_duplicates", "probe.pieces_ge3", "probe.save_after_piece"],
        fault_kinds: &["fault.piece_reorder", "fault.piece_dup", "fault.reorder"],
    }
}

pub fn profile() -> Profile {
    Profile {
        replicas: (1, 3),
        events: (10, 160),
        w_save: 2,
        w_save_inc: 10,
        w_probe: 3,
        w_merge: 3,
        w_commit: 14,
        subset_sends: true,
        ..Profile::default()
    }
}

#[derive(Default)]
pub struct C12 {
    layout: Fnv,
    nontrivial: bool,
}

impl C12 {
    fn check(&mut self, w: &mut World, r: usize) -> Result<(), Violation> {
        let fail = |w: &World, oracle: &str, sig: &str, d: String| violation("C12", oracle, sig, w.step, format!("replica {r}: {d}"));
        let pieces = w.reps[r].disk.current.clone();
        if pieces.is_empty() {
            return Ok(());
        }
        let writer_tree = observe_replica(w, r, "C12", "concat_loads_to_writer")?;
        let writer_heads = heads_sorted(from_hashes(&w.reps[r].doc.get_heads()));
        // (a) concatenation
        let all = Disk::bytes_of(&pieces);
        let loaded = load_doc(&all, w.cfg.enc).map_err(|e| fail(w, "concat_loads", &format!("load-failed:{}", sig_of_detail(&e)), format!("loading {} concatenated pieces failed: {e}", pieces.len())))?;
        w.stats.bump("probe.concat_loaded");
        let t = observe(&loaded, None).map_err(|e| fail(w, "concat_loads_to_writer", "read-inconsistency", e.0.clone()))?;
        if let Some(d) = tree_diff(&writer_tree, &t) {
            return Err(fail(w, "concat_loads_to_writer", &format!("state-differs:{}", sig_of_detail(&d)), format!("writer vs load(concat of {} pieces): {d}", pieces.len())));
        }
        let mut loaded = loaded;
        if heads_sorted(from_hashes(&loaded.get_heads())) != writer_heads {
            return Err(fail(w, "concat_loads_to_writer", "heads-differ", "heads of load(concat) differ from the writer's".to_string()));
        }
        // (b) follower
        if pieces.len() >= 2 {
            let mut rng = Rng::new((w.cfg.p1 as u64) << 8 ^ w.step);
            let k = rng.usize(pieces.len() - 1); // follower equals writer as of piece k
            let base = Disk::bytes_of(&pieces[..=k]);
            let mut follower = load_doc(&base, w.cfg.enc).map_err(|e| fail(w, "prefix_loads", &format!("load-failed:{}", sig_of_detail(&e)), format!("loading the first {} pieces failed: {e}", k + 1)))?;
            let mut rest: Vec<usize> = ((k + 1)..pieces.len()).collect();
            let reorder = rng.bool();
            if reorder && rest.len() > 1 {
                rng.shuffle(&mut rest);
                w.stats.bump("probe.follower_reordered");
                w.stats.bump("fault.piece_reorder");
            }
            if rng.bool() {
                let d = rest[rng.usize(rest.len())];
                let at = rng.usize(rest.len() + 1);
                rest.insert(at, d);
                w.stats.bump("probe.follower_duplicates");
                w.stats.bump("fault.piece_dup");
            }
            for i in &rest {
                if let Err(e) = follower.load_incremental(&pieces[*i].bytes) {
                    return Err(fail(w, "follower_load_incremental", &format!("load-incremental-failed:{}", sig_of_detail(&format!("{e}"))), format!("piece {i} of {}: {e}", pieces.len())));
                }
            }
            w.stats.bump("probe.follower_checked");
            let ft = observe(&follower, None).map_err(|e| fail(w, "follower_equals_writer", "read-inconsistency", e.0.clone()))?;
            if let Some(d) = tree_diff(&writer_tree, &ft) {
                return Err(fail(w, "follower_equals_writer", &format!("state-differs:{}", sig_of_detail(&d)), format!("writer vs follower (from piece {k}, order {rest:?}): {d}")));
            }
            let fh = heads_sorted(from_hashes(&follower.get_heads()));
            if fh != writer_heads {
                return Err(fail(w, "follower_equals_writer", "heads-differ", format!("follower heads differ (from piece {k}, order {rest:?})")));
            }
            // feeding the same pieces again has no further effect
            let missing_before = follower.get_missing_deps(&[]);
            for i in &rest {
                if let Err(e) = follower.load_incremental(&pieces[*i].bytes) {
                    return Err(fail(w, "refeed_is_noop", &format!("load-incremental-failed:{}", sig_of_detail(&format!("{e}"))), format!("re-feeding piece {i}: {e}")));
                }
            }
            let ft2 = observe(&follower, None).map_err(|e| fail(w, "refeed_is_noop", "read-inconsistency", e.0.clone()))?;
            if tree_diff(&ft, &ft2).is_some() || heads_sorted(from_hashes(&follower.get_heads())) != fh || follower.get_missing_deps(&[]) != missing_before {
                return Err(fail(w, "refeed_is_noop", "refeed-changed-document", "feeding the same pieces a second time changed the document".to_string()));
            }
            if pieces.len() >= 3 {
                w.stats.bump("probe.pieces_ge3");
                if k + 2 < pieces.len() {
                    self.nontrivial = true;
                }
            }
            self.layout.u64(pieces.len() as u64);
            for p in &pieces {
                self.layout.u64(p.bytes.len() as u64);
            }
        }
        Ok(())
    }
}

impl Oracle for C12 {
    fn after(&mut self, w: &mut World, ev: &Ev, out: &Outcome) -> Result<(), Violation> {
        match (ev, out) {
            (_, Outcome::Saved { r }) => self.check(w, *r),
            (Ev::Probe { r, arg }, _) => {
                // save_after(heads) as one more piece
                let r = w.rsel(*r);
                if w.reps[r].isolated.is_some() || w.reps[r].disk.current.is_empty() {
                    return Ok(());
                }
                w.commit_pending(r);
                if let Some(hs) = w.pick_heads(r, *arg) {
                    let bytes = w.reps[r].doc.document().save_after(&to_hashes(&hs));
                    if !bytes.is_empty() {
                        let known = w.reps[r].known.clone();
                        w.reps[r].disk.current.push(Piece { bytes, kind: PieceKind::SaveAfter, writer_set: known, orphans: Default::default() });
                        w.stats.bump("probe.save_after_piece");
                        // the file no longer covers what was committed since the last incremental save unless we also append it
                        let inc = w.reps[r].doc.save_incremental();
                        if !inc.is_empty() {
                            let known = w.reps[r].known.clone();
                            w.reps[r].disk.current.push(Piece { bytes: inc, kind: PieceKind::Incremental, writer_set: known, orphans: Default::default() });
                        }
                        return self.check(w, r);
                    }
                }
                Ok(())
            }
            _ => Ok(()),
        }
    }

    fn finish(&mut self, w: &mut World) -> Result<(), Violation> {
        for r in 0..w.n() {
            if w.reps[r].isolated.is_some() {
                continue;
            }
            let ev = Ev::SaveInc { r: r as u8 };
            let out = w.exec(&ev);
            self.after(w, &ev, &out)?;
        }
        Ok(())
    }

    fn nontrivial(&self, _w: &World) -> Option<u64> {
        if self.nontrivial {
            Some(self.layout.finish())
        } else {
            None
        }
    }
}
