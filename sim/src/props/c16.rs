//! C16 Any document that loads is internally consistent.
//! C39 Strings decoded from untrusted bytes are always valid UTF-8.

use super::*;
use crate::events::*;
use crate::gen::Profile;
use crate::prng::Fnv;
use automerge::{AutoCommit, ObjId, ObjType, ReadDoc, Value};

pub fn def() -> PropDef {
    PropDef {
        id: "C16",
        title: "Any document that loads is internally consistent",
        level: "exploration",
        profile,
        oracle: |_cfg| Box::new(C16::default()),
        quick_runs: 5_000,
        thorough_runs: 200_000,
        panic_is_violation: true,
        rule: "run = multi-replica simulation in which a replica's stored file is structurally mutated WITH the checksum recomputed (LEB fields, column data, column specs, splices, bit flips inside the chunk body) and the replica restarts from it; when load accepts the mutant the replica keeps taking part in the run (reads after every later event, edits, commits, merges and gossip with honest peers, saves) and at the end load(save(d)) must be R2-equal to d; any panic, abort, cap hit, timeout, failing read or unequal reload is a violation; convergence with honest peers is NOT required of such a replica. non-trivial = at least one mutant was accepted by load; distinct by digest of the accepted mutation descriptions",
        custom: None,
        abort_prone: true,
        probes: &["probe.corrupt_file_loaded", "probe.post_load_reads", "probe.post_load_reload_equal", "probe.post_load_edits"],
        fault_kinds: &["fault.corrupt_disk.*"],
    }
}

pub fn def_c39() -> PropDef {
    PropDef {
        id: "C39",
        title: "Strings decoded from untrusted bytes are valid UTF-8",
        level: "exploration",
        profile: profile_c39,
        oracle: |_cfg| Box::new(C39::default()),
        quick_runs: 5_000,
        thorough_runs: 200_000,
        panic_is_violation: false,
        rule: "run = multi-replica simulation in which invalid UTF-8 (ff, c0 80, lone continuation, surrogate, 5-byte form, truncated sequence) is written into string positions (key columns, string value payloads, mark names, commit messages) of documents, changes, bundles and sync messages in flight or at rest, lengths kept intact and checksums recomputed; whenever the receiver accepts the input, every string the API hands out afterwards (keys, text, string values, mark names and values, span text, change messages, hydrate) is re-validated with std::str::from_utf8; non-trivial = at least one poisoned input was accepted; distinct by digest of the mutation descriptions",
        custom: None,
        abort_prone: true,
        probes: &["probe.poisoned_inputs", "probe.poisoned_accepted", "probe.strings_validated"],
        fault_kinds: &["fault.corrupt.Utf8Poison", "fault.corrupt_sync.Utf8Poison", "fault.corrupt_disk.Utf8Poison"],
    }
}

pub fn profile() -> Profile {
    use crate::mutate::MutClass::*;
    Profile {
        replicas: (2, 3),
        events: (12, 110),
        w_save: 6,
        w_save_inc: 3,
        w_crash_corrupt: 5,
        w_merge: 3,
        w_send: 8,
        w_deliver: 8,
        mut_classes: vec![FieldExtreme, DataLeb, DataLeb, ColumnSplice, SpecMutate, BitFlip, ByteSet, Utf8Poison, Coherent, Coherent],
        fix_checksum_permille: 1000,
        partial_ignore_permille: 200,
        unverified_permille: 0,
        long_chain_permille: 0,
        ..Profile::default()
    }
}

pub fn profile_c39() -> Profile {
    use crate::mutate::MutClass::*;
    Profile {
        replicas: (2, 3),
        events: (12, 110),
        w_save: 5,
        w_save_inc: 3,
        w_crash_corrupt: 4,
        w_deliver_corrupt: 8,
        w_recv_corrupt: 4,
        w_connect: 3,
        w_gen: 8,
        w_recv: 6,
        w_send: 10,
        w_deliver: 6,
        w_commit: 14,
        mut_classes: vec![Utf8Poison],
        fix_checksum_permille: 1000,
        wire: vec![WireEnc::Raw, WireEnc::Compressed, WireEnc::Bundle, WireEnc::FullSave],
        long_chain_permille: 0,
        e_mark: 8,
        ..Profile::default()
    }
}

#[derive(Default)]
pub struct C16 {
    suspect: Vec<bool>,
    accepted: u64,
    digest: Fnv,
}

impl C16 {
    fn check(&mut self, w: &mut World, r: usize, deep: bool) -> Result<(), Violation> {
        if w.reps[r].isolated.is_some() {
            return Ok(());
        }
        crate::monitor::set_subcontext("reads on a replica restarted from an accepted mutated file");
        w.stats.bump("probe.post_load_reads");
        let tag = w.last_mutation.get(&r).cloned().unwrap_or_default();
        let t = observe(&w.reps[r].doc, None).map_err(|e| violation("C16", "every_read_succeeds", &format!("read-inconsistency:{tag}"), w.step, format!("replica {r} (restarted from a file with {tag}): {}", e.0)))?;
        // hydrate walks the whole object graph recursively inside the library
        if deep {
            crate::monitor::set_subcontext("hydrate of a replica restarted from an accepted mutated file");
            let _ = w.reps[r].doc.hydrate(&automerge::ROOT, None);
        }
        if deep && w.reps[r].doc.pending_ops() == 0 {
            crate::monitor::set_subcontext("save/load of a replica restarted from an accepted mutated file");
            let bytes = w.reps[r].doc.document().save();
            match AutoCommit::load_with_options(&bytes, automerge::LoadOptions::new().text_encoding(w.cfg.enc.to_am())) {
                Ok(d2) => {
                    let t2 = observe(&d2, None).map_err(|e| violation("C16", "reload_reads", "read-inconsistency", w.step, e.0.clone()))?;
                    if let Some(d) = tree_diff(&t, &t2) {
                        return Err(violation("C16", "reload_equal", &format!("reload-differs:{tag}"), w.step, format!("replica {r}: load(save(d)) differs from d: {d}")));
                    }
                    w.stats.bump("probe.post_load_reload_equal");
                }
                Err(e) => {
                    return Err(violation("C16", "reload_succeeds", &format!("reload-failed:{tag}"), w.step, format!("replica {r}: the accepted document's own save output does not load: {e}")));
                }
            }
        }
        Ok(())
    }
}

impl Oracle for C16 {
    fn after(&mut self, w: &mut World, ev: &Ev, out: &Outcome) -> Result<(), Violation> {
        while self.suspect.len() < w.n() {
            self.suspect.push(false);
        }
        if let (Ev::CrashCorrupt { .. }, Outcome::Restarted { r, loaded, .. }) = (ev, out) {
            if loaded.is_ok() {
                self.suspect[*r] = true;
                self.accepted += 1;
                w.stats.bump("probe.corrupt_file_loaded");
                self.digest.u64(w.step);
                return self.check(w, *r, true);
            } else {
                self.suspect[*r] = false;
            }
            return Ok(());
        }
        let r = ev.replica() as usize % w.n();
        if self.suspect[r] {
            if matches!(out, Outcome::Edit { result: Ok(_), .. }) {
                w.stats.bump("probe.post_load_edits");
            }
            let deep = matches!(out, Outcome::Committed { .. } | Outcome::Merged { .. } | Outcome::Delivered { .. });
            self.check(w, r, deep)?;
        }
        Ok(())
    }

    fn finish(&mut self, w: &mut World) -> Result<(), Violation> {
        while self.suspect.len() < w.n() {
            self.suspect.push(false);
        }
        for r in 0..w.n() {
            if self.suspect[r] && w.reps[r].isolated.is_none() {
                w.commit_pending(r);
                self.check(w, r, true)?;
            }
        }
        Ok(())
    }

    fn nontrivial(&self, _w: &World) -> Option<u64> {
        if self.accepted > 0 {
            Some(self.digest.finish())
        } else {
            None
        }
    }
}

#[derive(Default)]
pub struct C39 {
    accepted: u64,
    digest: Fnv,
}

fn valid(s: &str) -> bool {
    std::str::from_utf8(s.as_bytes()).is_ok()
}

/// walk every string the read API hands out; returns the first invalid one (location) and the count validated
pub fn utf8_scan(doc: &mut AutoCommit) -> (Option<String>, u64) {
    let mut count = 0u64;
    let mut stack: Vec<(ObjId, ObjType, usize)> = vec![(automerge::ROOT, ObjType::Map, 0)];
    let mut bad: Option<String> = None;
    let mut visited = 0usize;
    while let Some((obj, typ, depth)) = stack.pop() {
        visited += 1;
        if depth > 64 || visited > 2000 || bad.is_some() {
            break;
        }
        let mut note = |s: &str, what: &str, bad: &mut Option<String>| {
            count += 1;
            if !valid(s) && bad.is_none() {
                *bad = Some(format!("{what} in object {obj}: {:02x?}", &s.as_bytes()[..s.len().min(16)]));
            }
        };
        match typ {
            ObjType::Map | ObjType::Table => {
                let keys: Vec<String> = doc.keys(&obj).collect();
                for k in keys {
                    note(&k, "map key", &mut bad);
                    if let Ok(vals) = doc.get_all(&obj, k.as_str()) {
                        for (v, id) in vals {
                            match v {
                                Value::Scalar(s) => {
                                    if let automerge::ScalarValue::Str(s) = s.as_ref() {
                                        note(s.as_str(), "string value", &mut bad);
                                    }
                                }
                                Value::Object(t) => stack.push((id, t, depth + 1)),
                            }
                        }
                    }
                }
            }
            ObjType::List | ObjType::Text => {
                if typ == ObjType::Text {
                    if let Ok(t) = doc.text(&obj) {
                        note(&t, "text()", &mut bad);
                    }
                    if let Ok(ms) = doc.marks(&obj) {
                        for m in ms {
                            note(m.name(), "mark name", &mut bad);
                            if let automerge::ScalarValue::Str(s) = m.value() {
                                note(s.as_str(), "mark value", &mut bad);
                            }
                        }
                    }
                    if let Ok(spans) = doc.spans(&obj) {
                        for sp in spans {
                            if let automerge::iter::Span::Text { text, .. } = &sp {
                                note(text, "span text", &mut bad);
                            }
                        }
                    }
                }
                let n = doc.length(&obj).min(500);
                for i in 0..n {
                    if let Ok(vals) = doc.get_all(&obj, i) {
                        for (v, id) in vals {
                            match v {
                                Value::Scalar(s) => {
                                    if let automerge::ScalarValue::Str(s) = s.as_ref() {
                                        note(s.as_str(), "string element", &mut bad);
                                    }
                                }
                                Value::Object(t) => stack.push((id, t, depth + 1)),
                            }
                        }
                    }
                }
            }
        }
    }
    if bad.is_none() && doc.pending_ops() == 0 {
        for c in doc.document().get_changes(&[]) {
            if let Some(m) = c.message() {
                count += 1;
                if !valid(m) {
                    bad = Some(format!("change message: {:02x?}", &m.as_bytes()[..m.len().min(16)]));
                    break;
                }
            }
        }
    }
    (bad, count)
}

impl Oracle for C39 {
    fn after(&mut self, w: &mut World, ev: &Ev, out: &Outcome) -> Result<(), Violation> {
        let (r, accepted, desc) = match (ev, out) {
            (_, Outcome::Byz { r, result, desc, .. }) => (*r, result.is_ok(), desc.clone()),
            (Ev::CrashCorrupt { .. }, Outcome::Restarted { r, loaded, .. }) => (*r, loaded.is_ok(), "file".to_string()),
            _ => return Ok(()),
        };
        w.stats.bump("probe.poisoned_inputs");
        if !accepted || w.reps[r].isolated.is_some() {
            return Ok(());
        }
        self.accepted += 1;
        w.stats.bump("probe.poisoned_accepted");
        self.digest.str(&sig_of_detail(&desc));
        crate::monitor::set_subcontext("reading strings after poisoned input was accepted");
        let (bad, n) = utf8_scan(&mut w.reps[r].doc);
        w.stats.add("probe.strings_validated", n);
        if let Some(b) = bad {
            let kind: String = b.split(" in object").next().unwrap_or("").split(':').next().unwrap_or("").replace(' ', "-");
            let tag = w.last_mutation.get(&r).cloned().unwrap_or_default();
            return Err(violation("C39", "strings_valid_utf8", &format!("invalid-utf8:{kind}:{tag}"), w.step, format!("replica {r} after accepting input with {desc}: {b}")));
        }
        Ok(())
    }

    fn finish(&mut self, w: &mut World) -> Result<(), Violation> {
        for r in 0..w.n() {
            if w.reps[r].isolated.is_some() || !w.reps[r].tainted {
                continue;
            }
            crate::monitor::set_subcontext("final string scan");
            let (bad, n) = utf8_scan(&mut w.reps[r].doc);
            w.stats.add("probe.strings_validated", n);
            if let Some(b) = bad {
                let kind: String = b.split(" in object").next().unwrap_or("").split(':').next().unwrap_or("").replace(' ', "-");
                let tag = w.last_mutation.get(&r).cloned().unwrap_or_default();
                return Err(violation("C39", "strings_valid_utf8", &format!("invalid-utf8:{kind}:{tag}"), w.step, format!("replica {r}: {b}")));
            }
        }
        Ok(())
    }

    fn nontrivial(&self, _w: &World) -> Option<u64> {
        if self.accepted > 0 {
            Some(self.digest.finish())
        } else {
            None
        }
    }
}
