//! C06 Failed calls leave the document unchanged.

use super::*;
use crate::events::*;
use crate::gen::Profile;
use crate::prng::Fnv;
use automerge::transaction::CommitOptions;
use automerge::AutoCommit;

pub fn def() -> PropDef {
    PropDef {
        id: "C06",
        title: "Failed calls leave the document unchanged",
        level: "exploration",
        profile,
        oracle: |_cfg| Box::new(C06::default()),
        quick_runs: 8_000,
        thorough_runs: 600_000,
        panic_is_violation: false,
        rule: "run = seeded history interleaving valid operations with calls that must fail: apply_changes / load_incremental of changes whose (actor, seq) collides (actor-reuse workloads), load_incremental / apply_changes of corrupted packets (bit flips -> checksum errors; checksum-fixed structural mutations -> deeper errors), and rejected transaction calls (foreign or wrong-kind object ids, out-of-range indexes, increments of non-counters). A clone is taken before every such call; on Err the heads, R2 tree, get_missing_deps, pending_ops and save() bytes (with orphans = the pending queue) must equal the clone's; then the clone follows the same subsequent calls (edits, commits with the same time/message, rollbacks, deliveries) for up to 40 steps and must stay R2-equal with hash-identical commits, and load(save()) must work on both. non-trivial = at least one failing call was checked against its clone; distinct by digest of the (failing call kind, error class) sequence",
        custom: None,
        abort_prone: true,
        probes: &["probe.failed_call_checked", "probe.failed.edit", "probe.failed.apply_changes", "probe.failed.load_incremental", "probe.failed.merge", "probe.failed.duplicate_seq", "probe.shadow_steps", "probe.shadow_commit_compared", "probe.final_reload"],
        fault_kinds: &["fault.actor_reuse", "fault.corrupt.*", "fault.reorder"],
    }
}

pub fn profile() -> Profile {
    use crate::mutate::MutClass::*;
    Profile {
        replicas: (2, 4),
        events: (10, 130),
        w_fork_same_actor: 6,
        w_merge: 4,
        w_send: 12,
        w_deliver: 10,
        w_deliver_corrupt: 5,
        w_rollback: 2,
        confused_permille: 250,
        subset_sends: true,
        mut_classes: vec![BitFlip, ByteSet, Truncate, FieldExtreme, Garbage, BitFlip],
        fix_checksum_permille: 400,
        wire: vec![WireEnc::Raw, WireEnc::Compressed, WireEnc::FullSave, WireEnc::Bundle],
        // some runs long enough for the change graph's cached clocks (every 16th change) to exist
        long_chain_permille: 150,
        ..Profile::default()
    }
}

struct Shadow {
    doc: AutoCommit,
    steps_left: u32,
}

#[derive(Default)]
pub struct C06 {
    pre: Vec<Option<AutoCommit>>,
    shadows: Vec<Option<Shadow>>,
    checked: u64,
    digest: Fnv,
    deferred: Option<Violation>,
}

fn save_bytes(d: &mut AutoCommit) -> Vec<u8> {
    d.document().save_with_options(automerge::SaveOptions { deflate: false, retain_orphans: true })
}

impl C06 {
    fn grow(&mut self, n: usize) {
        while self.pre.len() < n {
            self.pre.push(None);
        }
        while self.shadows.len() < n {
            self.shadows.push(None);
        }
    }

    /// the failing call returned Err: compare the document with its pre-call clone
    fn unchanged(&mut self, w: &mut World, r: usize, kind: &str, err: &str) -> Result<(), Violation> {
        let step = w.step;
        let mut pre = match self.pre[r].take() {
            Some(p) => p,
            None => return Ok(()),
        };
        if w.reps[r].tainted {
            // a replica that already accepted corrupted input is C16's business
            return Ok(());
        }
        let fail = |oracle: &str, sig: &str, d: String| violation("C06", oracle, sig, step, format!("replica {r}: {kind} returned Err({err}) but {d}"));
        // deliveries and merges first commit the receiver's open transaction (harness policy, same clock): do the
        // same on the clone so that the two are comparable
        if kind != "edit" && pre.pending_ops() > 0 && w.reps[r].doc.pending_ops() == 0 {
            pre.commit_with(CommitOptions::default().with_time(w.reps[r].clock));
        }
        w.stats.bump("probe.failed_call_checked");
        w.stats.bump(&format!("probe.failed.{kind}"));
        if err.to_lowercase().contains("duplicate") {
            w.stats.bump("probe.failed.duplicate_seq");
        }
        self.checked += 1;
        self.digest.str(kind);
        self.digest.str(&sig_of_detail(err));
        let t_now = observe(&w.reps[r].doc, None).map_err(|e| fail("state_unchanged", "read-inconsistency", e.0.clone()))?;
        let t_pre = observe(&pre, None).map_err(|e| fail("state_unchanged", "read-inconsistency", e.0.clone()))?;
        if let Some(d) = tree_diff(&t_pre, &t_now) {
            return Err(fail("state_unchanged", &format!("{kind}:state-changed"), format!("the state changed: {d}")));
        }
        if pre.pending_ops() != w.reps[r].doc.pending_ops() {
            return Err(fail("pending_ops_unchanged", &format!("{kind}:pending-ops-changed"), format!("pending_ops went from {} to {}", pre.pending_ops(), w.reps[r].doc.pending_ops())));
        }
        if pre.pending_ops() == 0 {
            let h1 = heads_sorted(from_hashes(&pre.document().get_heads()));
            let h2 = heads_sorted(from_hashes(&w.reps[r].doc.document().get_heads()));
            if h1 != h2 {
                return Err(fail("heads_unchanged", &format!("{kind}:heads-changed"), "the heads changed".to_string()));
            }
            // "observably unchanged" includes what the document says about its past: reads at two earlier head sets
            for k in 0..2u32 {
                if let Some(hs) = w.pick_heads(r, w.cfg.p2.wrapping_add(step as u32).wrapping_mul(2654435761).wrapping_add(k)) {
                    if hs.is_empty() {
                        continue;
                    }
                    w.stats.bump("probe.failed_call_historical_read");
                    let a = observe(&pre, Some(&hs)).map_err(|e| fail("history_unchanged", "read-inconsistency", e.0.clone()))?;
                    let b = observe(&w.reps[r].doc, Some(&hs)).map_err(|e| fail("history_unchanged", "read-inconsistency", e.0.clone()))?;
                    if let Some(d) = tree_diff(&a, &b) {
                        return Err(fail("history_unchanged", &format!("{kind}:historical-state-changed"), format!("the state at earlier heads ({} head(s)) changed: {d}", hs.len())));
                    }
                }
            }
            let m1 = pre.document().get_missing_deps(&[]);
            let m2 = w.reps[r].doc.document().get_missing_deps(&[]);
            if m1 != m2 {
                return Err(fail(
                    "pending_queue_unchanged",
                    &format!("{kind}:missing-deps-changed"),
                    format!("get_missing_deps went from {:?} to {:?} (the pending queue changed)", m1.iter().map(|h| short(&h.0)).collect::<Vec<_>>(), m2.iter().map(|h| short(&h.0)).collect::<Vec<_>>()),
                ));
            }
            let b1 = save_bytes(&mut pre);
            let b2 = save_bytes(&mut w.reps[r].doc);
            if b1 != b2 {
                return Err(fail("save_bytes_unchanged", &format!("{kind}:save-bytes-changed"), format!("save() (orphans retained) went from {} to {} bytes or changed content", b1.len(), b2.len())));
            }
        }
        // the clone becomes the shadow twin
        let k = 5 + (w.cfg.p1 as u64 + step) % 36;
        self.shadows[r] = Some(Shadow { doc: pre, steps_left: k as u32 });
        Ok(())
    }

    /// implicit commits (harness policy: a pending transaction is committed, with the replica's clock, before any
    /// non-edit event touches the document — also inside events that end up as no-ops) are mirrored on the twins
    fn sync_implicit_commits(&mut self, w: &mut World) {
        for r in 0..w.n().min(self.shadows.len()) {
            if let Some(sh) = self.shadows[r].as_mut() {
                if w.reps[r].doc.pending_ops() == 0 && sh.doc.pending_ops() > 0 {
                    sh.doc.commit_with(CommitOptions::default().with_time(w.reps[r].clock));
                }
            }
        }
    }

    fn end_shadow(&mut self, w: &mut World, r: usize) -> Result<(), Violation> {
        self.sync_implicit_commits(w);
        let mut sh = match self.shadows[r].take() {
            Some(s) => s,
            None => return Ok(()),
        };
        if w.reps[r].tainted {
            return Ok(());
        }
        let step = w.step;
        let fail = |oracle: &str, sig: &str, d: String| violation("C06", oracle, sig, step, format!("replica {r} vs its as-if-the-failed-call-never-happened twin: {d}"));
        let a = observe(&w.reps[r].doc, None).map_err(|e| fail("later_behaviour", "read-inconsistency", e.0.clone()))?;
        let b = observe(&sh.doc, None).map_err(|e| fail("later_behaviour", "read-inconsistency", e.0.clone()))?;
        if let Some(d) = tree_diff(&b, &a) {
            return Err(fail("later_behaviour", "twin-diverged", format!("states diverged: {d}")));
        }
        // ... and what the two say about the past (a failed first call of a fresh actor closes an empty transaction later on,
        // which removes the actor again: caches keyed by actor index must survive that)
        if w.reps[r].doc.pending_ops() == 0 && sh.doc.pending_ops() == 0 {
            for k in 0..2u32 {
                if let Some(hs) = w.pick_heads(r, w.cfg.p1.wrapping_add(step as u32).wrapping_mul(40503).wrapping_add(k)) {
                    if hs.is_empty() {
                        continue;
                    }
                    w.stats.bump("probe.twin_historical_read");
                    let a = observe(&w.reps[r].doc, Some(&hs)).map_err(|e| fail("later_behaviour", "read-inconsistency", e.0.clone()))?;
                    let b = observe(&sh.doc, Some(&hs));
                    // the twin may lack heads the document got later through events it could not follow: compare only if it reads
                    if let Ok(b) = b {
                        if let Some(d) = tree_diff(&b, &a) {
                            return Err(fail("later_behaviour", "twin-diverged-at-earlier-heads", format!("states at earlier heads ({} head(s)) diverged: {d}", hs.len())));
                        }
                    }
                }
            }
        }
        if w.reps[r].doc.pending_ops() == 0 && sh.doc.pending_ops() == 0 {
            w.stats.bump("probe.final_reload");
            let b1 = save_bytes(&mut w.reps[r].doc);
            let b2 = save_bytes(&mut sh.doc);
            for (which, b) in [("document", &b1), ("twin", &b2)] {
                if let Err(e) = AutoCommit::load(b) {
                    return Err(fail("save_reload_works", "reload-failed", format!("load(save()) of the {which} failed: {e}")));
                }
            }
        }
        Ok(())
    }
}

impl Oracle for C06 {
    fn before(&mut self, w: &mut World, ev: &Ev) {
        self.grow(w.n() + 1);
        self.sync_implicit_commits(w);
        // events the twin cannot follow end the comparison *before* they run
        let followable = matches!(
            ev,
            Ev::Edit { .. } | Ev::Commit { .. } | Ev::EmptyChange { .. } | Ev::Rollback { .. } | Ev::Deliver { .. } | Ev::DeliverCorrupt { .. } | Ev::Send { .. } | Ev::DupPkt { .. } | Ev::DropPkt { .. } | Ev::Probe { .. }
        );
        if !followable {
            for r in 0..w.n() {
                if self.shadows[r].is_some() {
                    if let Err(v) = self.end_shadow(w, r) {
                        self.deferred.get_or_insert(v);
                    }
                }
            }
        }
        // clone the target before any call that may fail
        let r = match ev {
            Ev::Edit { r, .. } => Some(w.rsel(*r)),
            Ev::Merge { to, .. } => Some(w.rsel(*to)),
            Ev::Deliver { .. } | Ev::DeliverCorrupt { .. } => None,
            _ => return,
        };
        match r {
            Some(r) => {
                self.pre[r] = Some(w.reps[r].doc.clone());
            }
            None => {
                // the receiver is resolved inside exec (it may fall back to another link): clone every candidate
                for r in 0..w.n() {
                    self.pre[r] = Some(w.reps[r].doc.clone());
                }
            }
        }
    }

    fn after(&mut self, w: &mut World, ev: &Ev, out: &Outcome) -> Result<(), Violation> {
        self.grow(w.n() + 1);
        if let Some(v) = self.deferred.take() {
            return Err(v);
        }
        // other replicas may have committed implicitly during this event (e.g. the sender of a Send)
        {
            let me = match out {
                Outcome::Committed { r, .. } | Outcome::Edit { r, .. } | Outcome::RolledBack { r, .. } | Outcome::Byz { r, .. } => Some(*r),
                Outcome::Delivered { to, .. } => Some(*to),
                _ => None,
            };
            for r in 0..w.n().min(self.shadows.len()) {
                if Some(r) == me {
                    continue;
                }
                if let Some(sh) = self.shadows[r].as_mut() {
                    if w.reps[r].doc.pending_ops() == 0 && sh.doc.pending_ops() > 0 && !matches!(out, Outcome::Delivered { .. } | Outcome::Byz { .. }) {
                        sh.doc.commit_with(CommitOptions::default().with_time(w.reps[r].clock));
                    }
                }
            }
        }
        // 1. failed calls
        match out {
            Outcome::Edit { r, result: Err(e), .. } => {
                let e = e.clone();
                self.unchanged(w, *r, "edit", &e)?;
                // an edit that failed must not be mirrored on the twin as a success: the twin *is* the pre-state
                return Ok(());
            }
            Outcome::Delivered { to, result: Err(e), stream, .. } => {
                let single_call = w.last_packet.as_ref().map_or(false, |p| p.stream || p.batch || p.blobs.len() == 1);
                if single_call {
                    let e = e.clone();
                    self.unchanged(w, *to, if *stream { "load_incremental" } else { "apply_changes" }, &e)?;
                    return Ok(());
                }
            }
            Outcome::Byz { r, result: Err(e), what, .. } if what == "deliver_corrupt" => {
                let single_call = w.last_packet.as_ref().map_or(false, |p| p.stream || p.batch || p.blobs.len() == 1);
                if single_call {
                    let kind = if w.last_packet.as_ref().map_or(false, |p| p.stream) { "load_incremental" } else { "apply_changes" };
                    let e = e.clone();
                    self.unchanged(w, *r, kind, &e)?;
                    return Ok(());
                }
            }
            Outcome::Merged { to, result: Err(e), .. } => {
                let e = e.clone();
                self.unchanged(w, *to, "merge", &e)?;
                return Ok(());
            }
            _ => {}
        }
        // 2. shadow twins follow the same calls
        let r = match out {
            Outcome::Edit { r, .. } | Outcome::Committed { r, .. } | Outcome::RolledBack { r, .. } => *r,
            Outcome::Delivered { to, .. } => *to,
            Outcome::Byz { r, .. } => *r,
            Outcome::Nop | Outcome::Sent { .. } | Outcome::Other => {
                // events that do not touch a document's state in a way the twin has to follow, except implicit commits
                ev.replica() as usize % w.n()
            }
            _ => {
                // merge, fork, restart, save, sync: stop following (after a final comparison)
                let r = ev.replica() as usize % w.n();
                let mut touched = vec![r];
                if let Outcome::Merged { from, to, .. } = out {
                    touched = vec![*from, *to];
                }
                for t in touched {
                    if t < self.shadows.len() {
                        self.end_shadow(w, t)?;
                    }
                }
                return Ok(());
            }
        };
        if self.shadows[r].is_none() {
            return Ok(());
        }
        let step = w.step;
        let fail = |oracle: &str, sig: &str, d: String| violation("C06", oracle, sig, step, format!("replica {r} vs its as-if-the-failed-call-never-happened twin: {d}"));
        {
            let sh = self.shadows[r].as_mut().unwrap();
            w.stats.bump("probe.shadow_steps");
            match out {
                Outcome::Edit { call, result, .. } => {
                    let r2 = World::apply_call(&mut sh.doc, call);
                    if r2.is_ok() != result.is_ok() {
                        return Err(fail("later_behaviour", "twin-call-result-differs", format!("{call:?} returned {result:?} on the document and {r2:?} on the twin")));
                    }
                }
                Outcome::RolledBack { .. } => {
                    sh.doc.rollback();
                }
                Outcome::Committed { .. } if matches!(ev, Ev::EmptyChange { .. }) => {
                    // the world committed pending ops with clock-1... it bumps the clock once for the pending commit
                    // and once (by dt) for the empty change; mirror both with the same times
                    if let Ev::EmptyChange { dt, .. } = ev {
                        if sh.doc.pending_ops() > 0 {
                            sh.doc.commit_with(CommitOptions::default().with_time(w.reps[r].clock - *dt));
                        }
                        sh.doc.empty_change(CommitOptions::default().with_time(w.reps[r].clock));
                    }
                }
                Outcome::Delivered { .. } | Outcome::Byz { .. } => {
                    if sh.doc.pending_ops() > 0 {
                        sh.doc.commit_with(CommitOptions::default().with_time(w.reps[r].clock - 0));
                    }
                    if let Some(pk) = w.last_packet.clone() {
                        let _ = World::apply_packet(&mut sh.doc, &pk);
                    }
                }
                _ => {}
            }
            // commits (explicit or implicit): the document has no pending ops while the twin still has
            if w.reps[r].doc.pending_ops() == 0 && sh.doc.pending_ops() > 0 {
                let mut o = CommitOptions::default().with_time(w.reps[r].clock);
                if let Ev::Commit { msg: Some(m), .. } = ev {
                    o = o.with_message(m.clone());
                }
                sh.doc.commit_with(o);
            }
            if w.reps[r].doc.pending_ops() == 0 && sh.doc.pending_ops() == 0 {
                let h1 = heads_sorted(from_hashes(&w.reps[r].doc.document().get_heads()));
                let h2 = heads_sorted(from_hashes(&sh.doc.document().get_heads()));
                w.stats.bump("probe.shadow_commit_compared");
                if h1 != h2 {
                    let describe = |d: &mut AutoCommit| -> String {
                        d.document().get_last_local_change().map(|c| {
                            let e = c.decode();
                            format!("seq {} start_op {} time {} deps {} ops {:?}", e.seq, e.start_op, e.time, e.deps.len(), e.operations.iter().map(|o| format!("{:?} {:?} {:?} ins={} pred={:?}", o.action, o.obj, o.key, o.insert, o.pred)).collect::<Vec<_>>())
                        }).unwrap_or_default()
                    };
                    let da = describe(&mut w.reps[r].doc);
                    let db = describe(&mut sh.doc);
                    let (da, db) = (da.chars().take(600).collect::<String>(), db.chars().take(600).collect::<String>());
                    let _ = (&da, &db);
                    return Err(fail("later_behaviour", "twin-heads-differ", format!("heads differ after the same calls: {:?} vs {:?} (created changes are not hash-identical); document's last change: {da}; twin's: {db}", h1.iter().map(short).collect::<Vec<_>>(), h2.iter().map(short).collect::<Vec<_>>())));
                }
            }
            sh.steps_left = sh.steps_left.saturating_sub(1);
        }
        if self.shadows[r].as_ref().map_or(false, |s| s.steps_left == 0) {
            self.end_shadow(w, r)?;
        }
        Ok(())
    }

    fn finish(&mut self, w: &mut World) -> Result<(), Violation> {
        self.grow(w.n() + 1);
        for r in 0..w.n() {
            self.end_shadow(w, r)?;
            // no sequence of calls can leave a document that cannot be saved and reloaded
            if w.reps[r].isolated.is_none() && !w.reps[r].tainted {
                w.commit_pending(r);
                let b = save_bytes(&mut w.reps[r].doc);
                if let Err(e) = AutoCommit::load(&b) {
                    return Err(violation("C06", "save_reload_works", "reload-failed", w.step, format!("replica {r}: load(save()) failed at the end of the run: {e}")));
                }
            }
        }
        Ok(())
    }

    fn nontrivial(&self, _w: &World) -> Option<u64> {
        if self.checked > 0 {
            Some(self.digest.finish())
        } else {
            None
        }
    }
}
