//! C18 Change and bundle encodings round-trip.

use super::*;
use crate::events::*;
use crate::gen::Profile;
use crate::prng::{Fnv, Rng};
use automerge::{AutoCommit, Change};

pub fn def() -> PropDef {
    PropDef {
        id: "C18",
        title: "Change and bundle encodings round-trip",
        level: "exploration",
        profile,
        oracle: |_cfg| Box::new(C18::default()),
        quick_runs: 20_000,
        thorough_runs: 500_000,
        panic_is_violation: false,
        rule: "run = multi-replica gossip history; every change that goes on the wire is checked at the seam: Change::from_bytes(raw) and Change::from_bytes(compressed bytes) give the same hash, the same raw bytes and an equal expanded form; decode -> Change::from(expanded) gives the same hash; Bundles of seeded subsets of the sender's history give back byte-identical changes, and loading a bundle into a document that holds its dependencies has the same effect (R2 tree, heads) as applying the changes; hand-built expanded changes (real changes whose scalar payloads, time, message and extra bytes are replaced by extreme documented values) survive encode/decode. non-trivial = a change >= 256 bytes (DEFLATE path) or a bundle with >= 2 changes and cross-dependencies was checked; distinct by digest of the checked hashes",
        custom: None,
        abort_prone: false,
        probes: &["probe.changes_roundtripped", "probe.compressed_path", "probe.bundles_checked", "probe.bundle_cross_deps", "probe.bundle_load_equals_apply", "probe.handbuilt_checked"],
        fault_kinds: &["fault.reorder", "fault.dup"],
    }
}

pub fn profile() -> Profile {
    Profile {
        replicas: (2, 4),
        events: (15, 140),
        w_send: 14,
        w_deliver: 12,
        w_merge: 3,
        w_probe: 3,
        subset_sends: true,
        wire: vec![WireEnc::Raw, WireEnc::Compressed, WireEnc::Reencode, WireEnc::Bundle],
        long_chain_permille: 80,
        ..Profile::default()
    }
}

#[derive(Default)]
pub struct C18 {
    nontrivial: bool,
    digest: Fnv,
    seen: std::collections::BTreeSet<Hash>,
}

fn expanded_eq(a: &automerge::ExpandedChange, b: &automerge::ExpandedChange) -> bool {
    a.operations == b.operations && a.actor_id == b.actor_id && a.seq == b.seq && a.start_op == b.start_op && a.time == b.time && a.message == b.message && a.deps == b.deps && a.extra_bytes == b.extra_bytes
}

impl C18 {
    fn check_change(&mut self, w: &mut World, h: &Hash) -> Result<(), Violation> {
        if !self.seen.insert(*h) {
            return Ok(());
        }
        let step = w.step;
        let fail = |oracle: &str, sig: &str, d: String| violation("C18", oracle, sig, step, format!("change {}: {d}", short(h)));
        let raw = w.reg.changes[h].raw.clone();
        w.stats.bump("probe.changes_roundtripped");
        self.digest.write(&h[..8]);
        let mut c = Change::from_bytes(raw.clone()).map_err(|e| fail("from_raw", "raw-bytes-do-not-parse", format!("{e}")))?;
        if c.hash().0 != *h || c.raw_bytes() != raw.as_slice() {
            return Err(fail("from_raw", "raw-roundtrip-differs", "Change::from_bytes(raw) has a different hash or raw bytes".into()));
        }
        let exp = c.decode();
        // compressed form
        let z = c.bytes().to_vec();
        if raw.len() >= 256 {
            w.stats.bump("probe.compressed_path");
            self.nontrivial = true;
        }
        let c2 = Change::from_bytes(z.clone()).map_err(|e| fail("from_compressed", "compressed-bytes-do-not-parse", format!("{e} ({} -> {} bytes)", raw.len(), z.len())))?;
        if c2.hash().0 != *h || c2.raw_bytes() != raw.as_slice() || !expanded_eq(&c2.decode(), &exp) {
            return Err(fail("from_compressed", "compressed-roundtrip-differs", format!("Change::from_bytes(bytes()) differs ({} raw, {} compressed bytes)", raw.len(), z.len())));
        }
        // expand and re-encode
        let c3 = Change::from(exp.clone());
        if c3.hash().0 != *h {
            return Err(fail("reencode", "reencode-hash-differs", format!("Change::from(decode()) hashes to {} ({} vs {} bytes)", short(&c3.hash().0), c3.raw_bytes().len(), raw.len())));
        }
        Ok(())
    }

    fn check_bundle(&mut self, w: &mut World, r: usize, sel: u32) -> Result<(), Violation> {
        if w.reps[r].isolated.is_some() || w.reps[r].tainted {
            return Ok(());
        }
        w.commit_pending(r);
        let step = w.step;
        let fail = |oracle: &str, sig: &str, d: String| violation("C18", oracle, sig, step, format!("replica {r}: {d}"));
        let order: Vec<Hash> = w.reg.topo(&w.reps[r].known);
        if order.is_empty() {
            return Ok(());
        }
        let mut rng = Rng::new(sel as u64 ^ 0xB0D1);
        // (a) an arbitrary subset
        let keep = 300 + rng.below(600) as u32;
        let subset: Vec<Hash> = order.iter().filter(|_| rng.chance(keep)).cloned().collect();
        // (b) a suffix of the topological order: dep-closed relative to a base the document of the prefix
        let cut = rng.usize(order.len());
        let suffix: Vec<Hash> = order[cut..].to_vec();
        for (label, set, loadable) in [("subset", subset, false), ("suffix", suffix, true)] {
            if set.is_empty() {
                continue;
            }
            let b = match w.reps[r].doc.bundle(to_hashes(&set)) {
                Ok(b) => b,
                Err(e) => return Err(fail("bundle_builds", &format!("bundle-failed:{}", sig_of_detail(&format!("{e}"))), format!("bundle of a {label} of {} changes failed: {e}", set.len()))),
            };
            w.stats.bump("probe.bundles_checked");
            let bytes = b.bytes().to_vec();
            let back = automerge::Bundle::try_from(bytes.as_slice()).map_err(|e| fail("bundle_parses", "bundle-does-not-parse", format!("{e}")))?;
            let chs = back.to_changes().map_err(|e| fail("bundle_to_changes", &format!("bundle-to-changes-failed:{}", sig_of_detail(&format!("{e}"))), format!("{label} of {} changes: {e}", set.len())))?;
            let got: std::collections::BTreeMap<Hash, Vec<u8>> = chs.iter().map(|c| (c.hash().0, c.raw_bytes().to_vec())).collect();
            if got.len() != set.len() || !set.iter().all(|h| got.get(h).map(|b| b.as_slice()) == Some(w.reg.changes[h].raw.as_slice())) {
                let missing = set.iter().filter(|h| !got.contains_key(*h)).count();
                return Err(fail("bundle_changes_identical", "bundle-changes-differ", format!("bundle of a {label} of {} changes gives back {} changes, {missing} of the originals are missing or not byte-identical", set.len(), got.len())));
            }
            let cross = set.iter().any(|h| w.reg.changes[h].deps.iter().any(|d| set.contains(d)));
            if set.len() >= 2 && cross {
                w.stats.bump("probe.bundle_cross_deps");
                self.nontrivial = true;
            }
            if loadable {
                // base = a document holding exactly the prefix
                let mut base = new_doc(w.cfg.enc, &[0xBA, 0x5E]);
                let prefix: Vec<Change> = order[..cut].iter().map(|h| Change::from_bytes(w.reg.changes[h].raw.clone()).unwrap()).collect();
                if base.apply_changes(prefix).is_err() {
                    continue;
                }
                let mut a = base.clone();
                let mut bdoc: AutoCommit = base;
                let applied: Vec<Change> = set.iter().map(|h| Change::from_bytes(w.reg.changes[h].raw.clone()).unwrap()).collect();
                let ra = a.apply_changes(applied).map_err(|e| format!("{e}"));
                let rb = bdoc.load_incremental(&bytes).map(|_| ()).map_err(|e| format!("{e}"));
                w.stats.bump("probe.bundle_load_equals_apply");
                if ra.is_ok() != rb.is_ok() {
                    return Err(fail("bundle_load_equals_apply", "bundle-load-result-differs", format!("apply_changes: {ra:?}, load_incremental(bundle): {rb:?}")));
                }
                let ta = observe(&a, None).map_err(|e| fail("reads", "read-inconsistency", e.0.clone()))?;
                let tb = observe(&bdoc, None).map_err(|e| fail("reads", "read-inconsistency", e.0.clone()))?;
                if let Some(d) = tree_diff(&ta, &tb) {
                    return Err(fail("bundle_load_equals_apply", &format!("bundle-load-state-differs:{}", sig_of_detail(&d)), d));
                }
                if heads_sorted(from_hashes(&a.get_heads())) != heads_sorted(from_hashes(&bdoc.get_heads())) {
                    return Err(fail("bundle_load_equals_apply", "bundle-load-heads-differ", "heads differ".into()));
                }
            }
        }
        // hand-built expanded change: a real change with extreme payloads
        let h = order[rng.usize(order.len())];
        let c = Change::from_bytes(w.reg.changes[&h].raw.clone()).unwrap();
        let mut exp = c.decode();
        exp.time = *rng.pickv(&[i64::MIN, i64::MAX, 0, -1, 1 << 53]);
        exp.message = match rng.below(4) {
            0 => None,
            1 => Some(" ".into()),
            2 => Some("é😀\u{301}中\n".repeat(1 + rng.usize(40))),
            _ => Some("m".into()),
        };
        exp.extra_bytes = rng.bytes(rng.clone().usize(12));
        exp.hash = None;
        for op in exp.operations.iter_mut() {
            if let automerge::legacy::OpType::Put(v) = &mut op.action {
                if !matches!(v, automerge::ScalarValue::Counter(_)) && rng.chance(500) {
                    *v = match rng.below(9) {
                        0 => automerge::ScalarValue::Int(i64::MIN),
                        1 => automerge::ScalarValue::Int(i64::MAX),
                        2 => automerge::ScalarValue::Uint(u64::MAX),
                        3 => automerge::ScalarValue::F64(f64::MIN_POSITIVE),
                        4 => automerge::ScalarValue::F64(-0.0),
                        5 => automerge::ScalarValue::Str("".into()),
                        6 => automerge::ScalarValue::Bytes(vec![0; 300]),
                        7 => automerge::ScalarValue::Timestamp(i64::MIN),
                        _ => automerge::ScalarValue::Str("x".repeat(300).into()),
                    };
                }
            }
        }
        w.stats.bump("probe.handbuilt_checked");
        let built = Change::from(exp.clone());
        let parsed = Change::from_bytes(built.raw_bytes().to_vec()).map_err(|e| fail("handbuilt_parses", "handbuilt-does-not-parse", format!("{e}")))?;
        if parsed.hash() != built.hash() {
            return Err(fail("handbuilt_roundtrip", "handbuilt-hash-differs", "from_bytes(raw) of a hand-built change has another hash".into()));
        }
        let mut d = parsed.decode();
        d.hash = None;
        if !expanded_eq(&d, &exp) {
            return Err(fail("handbuilt_roundtrip", "handbuilt-decode-differs", format!("decode() of a hand-built change differs from what was encoded (time {}, message {:?}, {} ops)", exp.time, exp.message.as_ref().map(|m| m.len()), exp.operations.len())));
        }
        let again = Change::from(d);
        if again.hash() != built.hash() {
            return Err(fail("handbuilt_roundtrip", "handbuilt-reencode-hash-differs", "re-encoding the decoded hand-built change changes its hash".into()));
        }
        Ok(())
    }
}

impl Oracle for C18 {
    fn after(&mut self, w: &mut World, ev: &Ev, out: &Outcome) -> Result<(), Violation> {
        match (ev, out) {
            (_, Outcome::Sent { to, from, .. }) => {
                let hashes: Vec<Hash> = w.links.get(&(*from as u8, *to as u8)).and_then(|q| q.last()).map(|p| p.hashes.clone()).unwrap_or_default();
                for h in hashes.iter().take(40) {
                    if w.reg.contains(h) {
                        self.check_change(w, h)?;
                    }
                }
                Ok(())
            }
            (Ev::Probe { r, arg }, _) => {
                let r = w.rsel(*r);
                self.check_bundle(w, r, *arg)
            }
            _ => Ok(()),
        }
    }
    fn finish(&mut self, w: &mut World) -> Result<(), Violation> {
        let all: Vec<Hash> = w.reg.order.clone();
        for h in all.iter().take(200) {
            self.check_change(w, h)?;
        }
        for r in 0..w.n() {
            self.check_bundle(w, r, w.cfg.p2.wrapping_add(r as u32))?;
        }
        Ok(())
    }
    fn nontrivial(&self, _w: &World) -> Option<u64> {
        if self.nontrivial {
            Some(self.digest.finish())
        } else {
            None
        }
    }
}
