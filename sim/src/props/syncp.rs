//! Sync protocol properties: C20 (two peers), C21 (many peers, disconnects), C22 (read-only), C23 (bloom filter).

use super::*;
use crate::events::*;
use crate::gen::Profile;
use crate::prng::Fnv;
use automerge::sync::SyncDoc;
use std::collections::BTreeSet;

pub const ROUNDS: usize = 40;

pub fn def_c20() -> PropDef {
    PropDef {
        id: "C20",
        title: "Two-peer sync converges and goes quiet",
        level: "exploration",
        profile: profile_c20,
        oracle: |_cfg| Box::new(SyncOracle::new("C20")),
        quick_runs: 30_000,
        thorough_runs: 800_000,
        panic_is_violation: false,
        rule: "run = two replicas with arbitrary starting histories (edits, gossip) that then exchange sync messages over a reliable FIFO link in a seeded interleaving of generate / receive / local-edit steps, with Bloom false positives forced through hook H1 at a per-run rate in {0, 5%, 30%, 100%}; safety during the run: receive_sync_message never errs and never shrinks a document; liveness in the quiesce phase (false positives off, edits stopped): within 40 rounds (one round = each side receives everything pending, then generates once) both sides return None, heads are equal and the R2 trees are equal. non-trivial = the session saw a forced false positive or an edit while a message was in flight; distinct by digest of the message-size sequence",
        custom: None,
        abort_prone: false,
        probes: &["probe.sync_rounds_max", "probe.edit_while_in_flight", "probe.sessions_quiesced", "probe.bloom_have_checked", "fault.bloom_fp_forced"],
        fault_kinds: &["fault.bloom_fp_forced"],
    }
}

pub fn def_c21() -> PropDef {
    PropDef {
        id: "C21",
        title: "Multi-peer sync converges across disconnects",
        level: "exploration",
        profile: profile_c21,
        oracle: |_cfg| Box::new(SyncOracle::new("C21")),
        quick_runs: 20_000,
        thorough_runs: 500_000,
        panic_is_violation: false,
        rule: "run = 3-6 replicas with sync sessions in an arbitrary topology, connections dropped with messages in flight (both queues lost), reconnection with a fresh State or with State::decode(State::encode(..)) chosen independently per side, concurrent edits, forced Bloom false positives, crash/restart of peers; quiesce: faults off, a chain topology over all replicas is (re)connected with fresh-or-restored states as drawn, and within 40 x (replicas-1) rounds every replica holds the union of all changes, all heads are equal and every generate returns None. non-trivial = at least one in-flight loss followed by a reconnect with a restored state; distinct by digest of the connect/disconnect sequence",
        custom: None,
        abort_prone: false,
        probes: &["probe.sync_rounds_max", "probe.sessions_quiesced", "sync.state_restored", "fault.inflight_lost", "fault.disconnect", "probe.reconnect_restored_after_loss"],
        fault_kinds: &["fault.disconnect", "fault.inflight_lost", "fault.bloom_fp_forced", "fault.crash.clean"],
    }
}

pub fn def_c22() -> PropDef {
    PropDef {
        id: "C22",
        title: "Read-only sync never applies incoming changes",
        level: "exploration",
        profile: profile_c22,
        oracle: |_cfg| Box::new(SyncOracle::new("C22")),
        quick_runs: 24_000,
        thorough_runs: 600_000,
        panic_is_violation: false,
        rule: "run = 2-4 replicas with sync sessions whose sides are read-only or not, toggled by set_read_only at arbitrary points, with concurrent edits; whenever a message is received through a read-only state the receiver's heads and save() bytes must be unchanged; quiesce phase 1 (flags as they are): every read-write peer of a read-only peer obtains all of the read-only peer's changes; phase 2 (everything switched to read-write): within the round budget every replica holds every change. non-trivial = a toggle happened while a message was in flight, or a read-only side received changes; distinct by digest of the toggle sequence",
        custom: None,
        abort_prone: false,
        probes: &["probe.ro_receive_checked", "probe.ro_toggle_in_flight", "probe.ro_phase1_checked", "probe.sessions_quiesced", "probe.sync_rounds_max"],
        fault_kinds: &["fault.ro_toggle"],
    }
}

pub fn def_c23() -> PropDef {
    PropDef {
        id: "C23",
        title: "Bloom filter has no false negatives and never crashes",
        level: "exploration",
        profile: profile_c23,
        oracle: |_cfg| Box::new(SyncOracle::new("C23")),
        quick_runs: 6_000,
        thorough_runs: 600_000,
        panic_is_violation: true,
        rule: "run = multi-replica sync sessions over histories of 0 to several hundred changes (long-chain runs); for every Have that any replica puts on the wire, every hash of the sender's get_changes(last_sync) must be reported present by the filter as sent and by the filter rebuilt from its bytes; filters decoded from mutated bytes (parameter fields 0 / extreme, truncated, random) are queried with real hashes in a forked child (no panic, no abort). The 'for all hash sets' part is sampled only through sets that histories produce. non-trivial = a filter with >= 1 entry was checked; distinct by digest of the filter sizes",
        custom: None,
        abort_prone: true,
        probes: &["probe.bloom_have_checked", "probe.bloom_members_checked", "probe.bloom_entries_ge64", "probe.fuzzed_small_input_accepted"],
        fault_kinds: &["fault.id_fuzz.7", "fault.corrupt_sync.*"],
    }
}

fn sync_base() -> Profile {
    Profile {
        w_edit: 40,
        w_commit: 10,
        w_send: 2,
        w_deliver: 2,
        w_merge: 1,
        w_fork: 0,
        w_dup: 0,
        w_drop: 0,
        w_gen: 22,
        w_recv: 22,
        w_connect: 2,
        connect_all_at_permille: Some(200),
        bloom_fp: vec![0, 0, 50, 300, 1000],
        long_chain_permille: 60,
        ..Profile::default()
    }
}

pub fn profile_c20() -> Profile {
    Profile { replicas: (2, 2), events: (20, 160), ladder_prologue_permille: 25, ..sync_base() }
}

pub fn profile_c21() -> Profile {
    Profile {
        ladder_prologue_permille: 25,
        replicas: (3, 6),
        events: (30, 220),
        w_disconnect: 5,
        w_connect: 8,
        w_crash: 1,
        w_save: 2,
        ..sync_base()
    }
}

pub fn profile_c22() -> Profile {
    Profile {
        replicas: (2, 4),
        events: (20, 180),
        w_set_ro: 6,
        w_connect: 4,
        w_disconnect: 1,
        bloom_fp: vec![0],
        ..sync_base()
    }
}

pub fn profile_c23() -> Profile {
    use crate::mutate::MutClass::*;
    Profile {
        replicas: (2, 4),
        events: (20, 200),
        w_id_fuzz: 6,
        id_fuzz_kinds: vec![7],
        // filters also arrive inside sync messages (Message::decode parses them on its own path) and are then queried by
        // receive_sync_message / generate_sync_message
        w_recv_corrupt: 3,
        mut_classes: vec![FieldExtreme, BitFlip, Truncate, ByteSet],
        long_chain_permille: 200,
        bloom_fp: vec![0],
        ..sync_base()
    }
}

pub struct SyncOracle {
    id: &'static str,
    nontrivial: bool,
    digest: Fnv,
    known_len: Vec<usize>,
    /// for C22: (heads, save bytes) of a read-only receiver before the receive
    ro_pre: Option<(usize, Vec<Hash>, Vec<u8>)>,
    lost_then_restored: bool,
    saw_loss: bool,
}

impl SyncOracle {
    pub fn new(id: &'static str) -> Self {
        SyncOracle { id, nontrivial: false, digest: Fnv::new(), known_len: vec![], ro_pre: None, lost_then_restored: false, saw_loss: false }
    }

    fn fail(&self, w: &World, oracle: &str, sig: &str, d: String) -> Violation {
        violation(self.id, oracle, sig, w.step, d)
    }

    /// one round over the given sessions: every side receives everything pending, then generates once.
    /// returns true when nothing was generated and nothing was pending
    fn round(&mut self, w: &mut World, keys: &[(u8, u8)]) -> Result<bool, Violation> {
        let mut quiet = true;
        for (a, b) in keys {
            for (f, t) in [(*a as usize, *b as usize), (*b as usize, *a as usize)] {
                loop {
                    match w.sync_recv(f, t) {
                        Outcome::SyncRecv { result, .. } => {
                            quiet = false;
                            if let Err(e) = result {
                                return Err(self.fail(w, "receive_never_errs", &format!("receive-error:{}", sig_of_detail(&e)), format!("replica {t} receiving from {f} in quiesce: {e}")));
                            }
                        }
                        _ => break,
                    }
                }
            }
        }
        for (a, b) in keys {
            for (f, t) in [(*a as usize, *b as usize), (*b as usize, *a as usize)] {
                if let Outcome::SyncGen { msg: Some(bytes), from, .. } = w.sync_gen(f, t) {
                    quiet = false;
                    if std::env::var_os("AMSIM_TRACE_SYNC").is_some() {
                        eprintln!("  gen {f}->{t}: {:?}", automerge::sync::Message::decode(&bytes));
                    }
                    self.check_message(w, from, &bytes)?;
                }
            }
        }
        Ok(quiet)
    }

    /// C19/C23 checks on every message put on the wire
    fn check_message(&mut self, w: &mut World, from: usize, bytes: &[u8]) -> Result<(), Violation> {
        let msg = match automerge::sync::Message::decode(bytes) {
            Ok(m) => m,
            Err(e) => return Err(self.fail(w, "own_message_decodes", "own-message-undecodable", format!("replica {from} produced a message that does not decode: {e}"))),
        };
        // (a replica whose sync state was built from a corrupted message is exempt: what it then advertises - e.g. the empty
        // Have of a reset - is no longer a statement about its own changes; it is still never exempt from "no panic")
        if (self.id == "C23" || self.id == "C20") && !w.reps[from].tainted {
            for have in &msg.have {
                w.stats.bump("probe.bloom_have_checked");
                let members = w.reps[from].doc.document().get_changes(&have.last_sync);
                let rebuilt = automerge::sync::BloomFilter::try_from(have.bloom.to_bytes().as_slice());
                if members.len() >= 64 {
                    w.stats.bump("probe.bloom_entries_ge64");
                }
                if !members.is_empty() {
                    self.nontrivial |= self.id == "C23";
                    self.digest.u64(members.len() as u64);
                }
                for c in &members {
                    w.stats.bump("probe.bloom_members_checked");
                    let h = c.hash();
                    if !have.bloom.contains_hash(&h) {
                        return Err(violation("C23", "no_false_negatives", "bloom-false-negative", w.step, format!("replica {from}: change {} is in get_changes(last_sync) ({} members) but the Have's bloom filter says absent", short(&h.0), members.len())));
                    }
                    match &rebuilt {
                        Ok(b) => {
                            if !b.contains_hash(&h) {
                                return Err(violation("C23", "no_false_negatives_after_roundtrip", "bloom-false-negative-after-decode", w.step, format!("replica {from}: change {} absent after the filter was encoded and decoded", short(&h.0))));
                            }
                        }
                        Err(e) => return Err(violation("C23", "own_filter_decodes", "own-bloom-undecodable", w.step, format!("replica {from}: filter bytes do not decode: {e}"))),
                    }
                }
            }
        }
        Ok(())
    }

    /// "A Bloom filter built from a set of change hashes reports every member as present": besides the sets histories
    /// produce (whose hashes are uniformly random), one set per run is built by the harness through the public
    /// `BloomFilter::from_hashes`, mixing the run's real hashes with hashes whose three 32-bit probe words sit at the edges of
    /// their range (0, 1, 2^31, 2^32-1, ...) - the inputs on which modular probe arithmetic goes wrong, and which a random
    /// hash meets once in a million.
    fn constructed_filter(&mut self, w: &mut World) -> Result<(), Violation> {
        let mut rng = crate::prng::Rng::new(((w.cfg.p1 as u64) << 32 | w.cfg.p2 as u64) ^ 0xB100_F117);
        let edges: [u32; 8] = [0, 1, 2, 0x7fff_ffff, 0x8000_0000, 0xffff_fffe, 0xffff_ffff, 0xffff_ff00];
        let mut set: Vec<automerge::ChangeHash> = w.reg.order.iter().take(rng.usize(200)).map(|h| automerge::ChangeHash(*h)).collect();
        for _ in 0..1 + rng.usize(12) {
            let mut h = [0u8; 32];
            for b in h.iter_mut() {
                *b = rng.below(256) as u8;
            }
            for word in 0..3 {
                if rng.chance(700) {
                    let v = if rng.chance(800) { *rng.pickv(&edges) } else { u32::MAX - rng.below(4096) as u32 };
                    h[word * 4..word * 4 + 4].copy_from_slice(&v.to_le_bytes());
                }
            }
            set.push(automerge::ChangeHash(h));
        }
        crate::monitor::set_subcontext("constructed bloom filter");
        let f = automerge::sync::BloomFilter::from_hashes(set.iter());
        let back = automerge::sync::BloomFilter::try_from(f.to_bytes().as_slice());
        w.stats.bump("probe.constructed_filter");
        w.stats.add("probe.constructed_filter_members", set.len() as u64);
        for h in &set {
            if !f.contains_hash(h) {
                return Err(violation("C23", "no_false_negatives", "bloom-false-negative:constructed-set", w.step, format!("from_hashes over {} hashes does not contain its member {}", set.len(), hex::encode(h.0))));
            }
            match &back {
                Ok(b) => {
                    if !b.contains_hash(h) {
                        return Err(violation("C23", "no_false_negatives_after_roundtrip", "bloom-false-negative-after-decode:constructed-set", w.step, format!("after encode/decode the filter over {} hashes does not contain its member {}", set.len(), hex::encode(h.0))));
                    }
                }
                Err(e) => return Err(violation("C23", "own_filter_decodes", "own-bloom-undecodable", w.step, format!("constructed filter does not decode: {e}"))),
            }
        }
        Ok(())
    }

    fn all_quiet_and_equal(&mut self, w: &mut World, keys: &[(u8, u8)], budget: usize, phase: &str) -> Result<usize, Violation> {
        for round in 0..budget {
            if self.round(w, keys)? {
                return Ok(round);
            }
        }
        let pending: Vec<String> = keys.iter().map(|(a, b)| format!("{a}-{b}")).collect();
        Err(self.fail(w, "goes_quiet", &format!("not-quiet:{phase}"), format!("sessions {pending:?} still produce messages after {budget} rounds without faults or edits ({phase})")))
    }
}

impl Oracle for SyncOracle {
    fn before(&mut self, w: &mut World, ev: &Ev) {
        self.ro_pre = None;
        if self.id != "C22" {
            return;
        }
        if let Ev::Recv { from, to } = ev {
            let (f, t) = (w.rsel(*from), w.rsel(*to));
            if f == t {
                return;
            }
            let (lo, hi) = (f.min(t), f.max(t));
            if let Some(s) = w.sessions.get(&(lo as u8, hi as u8)) {
                let side = if t == lo { 0 } else { 1 };
                if s.state[side].read_only && !s.queue[side].is_empty() && w.reps[t].isolated.is_none() {
                    w.commit_pending(t);
                    let heads = heads_sorted(from_hashes(&w.reps[t].doc.document().get_heads()));
                    let bytes = w.reps[t].doc.document().save();
                    self.ro_pre = Some((t, heads, bytes));
                }
            }
        }
        if let Ev::SetReadOnly { r, peer, .. } = ev {
            let (x, y) = (w.rsel(*r), w.rsel(*peer));
            let (lo, hi) = (x.min(y), x.max(y));
            if let Some(s) = w.sessions.get(&(lo as u8, hi as u8)) {
                if !s.queue[0].is_empty() || !s.queue[1].is_empty() {
                    w.stats.bump("probe.ro_toggle_in_flight");
                    self.nontrivial = true;
                }
            }
            w.stats.bump("fault.ro_toggle");
            self.digest.u64(w.step);
        }
    }

    fn after(&mut self, w: &mut World, ev: &Ev, out: &Outcome) -> Result<(), Violation> {
        while self.known_len.len() < w.n() {
            self.known_len.push(0);
        }
        match out {
            Outcome::SyncRecv { from, to, result } => {
                if let Err(e) = result {
                    if !w.reps[*to].tainted && !w.reps[*from].tainted {
                        return Err(self.fail(w, "receive_never_errs", &format!("receive-error:{}", sig_of_detail(e)), format!("replica {to} receiving an honest message from {from}: {e}")));
                    }
                }
                if w.reps[*to].known.len() < self.known_len[*to] && w.reps[*to].restarts == 0 {
                    return Err(self.fail(w, "documents_only_grow", "document-shrank", format!("replica {to} lost changes by receiving a sync message")));
                }
                if let Some((t, heads, bytes)) = self.ro_pre.take() {
                    if t == *to {
                        w.stats.bump("probe.ro_receive_checked");
                        self.nontrivial = true;
                        let h2 = heads_sorted(from_hashes(&w.reps[t].doc.document().get_heads()));
                        let b2 = w.reps[t].doc.document().save();
                        if h2 != heads || b2 != bytes {
                            return Err(self.fail(w, "read_only_receive_changes_nothing", "read-only-document-changed", format!("replica {t} received a message through a read-only state and its document changed (heads {} -> {}, save {} -> {} bytes)", heads.len(), h2.len(), bytes.len(), b2.len())));
                        }
                    }
                }
            }
            Outcome::SyncGen { from, msg: Some(bytes), .. } => {
                self.digest.u64(bytes.len() as u64);
                self.check_message(w, *from, bytes)?;
            }
            Outcome::Edit { r, result: Ok(_), .. } => {
                // an edit while a message to or from this replica is in flight
                let inflight = w.sessions.iter().any(|((a, b), s)| (*a as usize == *r || *b as usize == *r) && (!s.queue[0].is_empty() || !s.queue[1].is_empty()));
                if inflight {
                    w.stats.bump("probe.edit_while_in_flight");
                    if self.id == "C20" {
                        self.nontrivial = true;
                    }
                }
            }
            _ => {}
        }
        if let Ev::Disconnect { .. } = ev {
            self.digest.u64(1_000_000 + w.step);
            if w.stats.get("fault.inflight_lost") > 0 {
                self.saw_loss = true;
            }
        }
        if let Ev::Connect { restore_a, restore_b, .. } = ev {
            self.digest.u64(2_000_000 + w.step);
            if self.saw_loss && (*restore_a || *restore_b) && w.stats.get("sync.state_restored") > 0 {
                self.lost_then_restored = true;
                w.stats.bump("probe.reconnect_restored_after_loss");
            }
        }
        for r in 0..w.n() {
            self.known_len[r] = w.reps[r].known.len();
        }
        Ok(())
    }

    fn finish(&mut self, w: &mut World) -> Result<(), Violation> {
        if self.id == "C23" {
            self.constructed_filter(w)?;
        }
        // faults off
        let forced = automerge::verif_hooks::with(|c| {
            let f = c.bloom_forced;
            c.bloom_fp_permille = 0;
            f
        })
        .unwrap_or(0);
        if forced > 0 && self.id == "C20" {
            self.nontrivial = true;
        }
        let n = w.n();
        for r in 0..n {
            if w.reps[r].isolated.is_some() {
                w.exec(&Ev::Integrate { r: r as u8 });
            }
            w.commit_pending(r);
        }
        if (0..n).any(|r| w.reps[r].tainted) {
            // byzantine inputs were used (C23's fuzz events): convergence is not required of such replicas
            return Ok(());
        }
        // C22 phase 1: flags as they are
        if self.id == "C22" {
            let keys: Vec<(u8, u8)> = w.sessions.keys().cloned().collect();
            if !keys.is_empty() {
                let before: Vec<BTreeSet<Hash>> = (0..n).map(|r| w.reps[r].known.clone()).collect();
                self.all_quiet_and_equal(w, &keys, ROUNDS * n, "read-only phase")?;
                w.stats.bump("probe.ro_phase1_checked");
                for (a, b) in &keys {
                    let s = &w.sessions[&(*a, *b)];
                    let (ra, rb) = (s.state[0].read_only, s.state[1].read_only);
                    let (a, b) = (*a as usize, *b as usize);
                    // a read-only side keeps its document; the other side still gets everything the read-only side had
                    if ra && !rb && !before[a].iter().all(|h| w.reps[b].known.contains(h)) {
                        return Err(self.fail(w, "peer_of_read_only_gets_everything", "read-only-peer-changes-not-delivered", format!("replica {a} is read-only towards {b}; after quiesce {b} lacks some of {a}'s changes")));
                    }
                    if rb && !ra && !before[b].iter().all(|h| w.reps[a].known.contains(h)) {
                        return Err(self.fail(w, "peer_of_read_only_gets_everything", "read-only-peer-changes-not-delivered", format!("replica {b} is read-only towards {a}; after quiesce {a} lacks some of {b}'s changes")));
                    }
                }
                // phase 2: switch everything back to read-write
                for k in &keys {
                    let s = w.sessions.get_mut(k).unwrap();
                    s.state[0].set_read_only(false);
                    s.state[1].set_read_only(false);
                }
            }
        }
        // connected topology: a chain over all replicas; existing sessions are kept, missing links are connected
        for a in 0..n.saturating_sub(1) {
            let b = a + 1;
            if !w.sessions.contains_key(&(a as u8, b as u8)) {
                let bits = w.cfg.p2 >> (2 * a);
                w.exec(&Ev::Connect { a: a as u8, b: b as u8, restore_a: bits & 1 == 1, restore_b: bits & 2 == 2, ro_a: false, ro_b: false });
            }
        }
        let keys: Vec<(u8, u8)> = w.sessions.keys().cloned().collect();
        let budget = ROUNDS * n.max(2);
        let rounds = self.all_quiet_and_equal(w, &keys, budget, "final")?;
        w.stats.bump("probe.sessions_quiesced");
        let cur = w.stats.get("probe.sync_rounds_max");
        w.stats.counters.insert("probe.sync_rounds_max".into(), cur.max(rounds as u64));
        // everyone holds the union, equal heads, equal state
        let mut union: BTreeSet<Hash> = BTreeSet::new();
        for r in 0..n {
            union.extend(w.reps[r].known.iter().cloned());
        }
        let mut reference: Option<(Tree, Vec<Hash>)> = None;
        for r in 0..n {
            if w.reps[r].known != union {
                return Err(self.fail(w, "converges", "not-converged", format!("all sessions are quiet but replica {r} holds {} of the {} changes known in its connected component", w.reps[r].known.len(), union.len())));
            }
            let t = observe_replica(w, r, self.id, "converges_same_state")?;
            let h = heads_sorted(from_hashes(&w.reps[r].doc.document().get_heads()));
            match &reference {
                None => reference = Some((t, h)),
                Some((t0, h0)) => {
                    if *h0 != h {
                        return Err(self.fail(w, "converges", "heads-differ", format!("replica {r} has different heads after sync went quiet")));
                    }
                    if let Some(d) = tree_diff(t0, &t) {
                        return Err(self.fail(w, "converges_same_state", &format!("state-differs:{}", sig_of_detail(&d)), format!("replica {r}: {d}")));
                    }
                }
            }
        }
        if self.id == "C21" && self.lost_then_restored {
            self.nontrivial = true;
        }
        Ok(())
    }

    fn nontrivial(&self, _w: &World) -> Option<u64> {
        if self.nontrivial {
            Some(self.digest.finish())
        } else {
            None
        }
    }
}
