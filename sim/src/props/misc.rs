//! C31 anonymization preserves shape; C32 serde export; C37 public API calls never panic.

use super::*;
use crate::events::*;
use crate::gen::Profile;
use crate::plain;
use crate::prng::{Fnv, Rng};
use automerge::{AutoCommit, ObjId, ReadDoc, ROOT};
use std::collections::BTreeMap;

pub fn def_c31() -> PropDef {
    PropDef {
        id: "C31",
        title: "Anonymization preserves document shape",
        level: "exploration",
        profile: profile_c31,
        oracle: |_cfg| Box::new(C31::default()),
        quick_runs: 8_000,
        thorough_runs: 200_000,
        panic_is_violation: false,
        rule: "run = multi-replica history with text, marks, counters, conflicts, nested objects; at the end (and at probe points) every replica's document is anonymized (rng seeded through hook H3) and compared with the original: change graph isomorphic in get_changes order (canonical actor index, seq, start_op, dependency indexes, op count, op kind / insert flag / key kind per op), and at the current heads and at head sets of the run mapped through that order: same object types, key counts, sequence lengths, text widths and conflict-set sizes; load(save(anon)) must be R2-equal to anon. non-trivial = history has a conflict or a mark and >= 2 actors; distinct by digest of the change-graph shape",
        custom: None,
        abort_prone: false,
        probes: &["probe.anonymized", "probe.anon_historical_checked", "probe.anon_with_conflict", "probe.anon_with_marks", "probe.anon_reload_checked"],
        fault_kinds: &["fault.reorder"],
    }
}

pub fn def_c32() -> PropDef {
    PropDef {
        id: "C32",
        title: "Serde export is a faithful image of the current state",
        level: "exploration",
        profile: profile_c32,
        oracle: |_cfg| Box::new(C32::default()),
        quick_runs: 60_000,
        thorough_runs: 500_000,
        panic_is_violation: false,
        rule: "run = multi-replica history with nested maps, lists and text of differing sizes and conflicted registers; at probe points and at the end every replica is serialized with AutoSerde (a) to serde_json and compared with the winners-only image of the R2 tree (text as strings), and (b) through a serializer written for this harness that ENFORCES serde's length contract (serialize_map(Some(n)) / serialize_seq(Some(n)) must receive exactly n entries). non-trivial = the document has a nested map whose size differs from the root's, or a conflicted register; distinct by state digest",
        custom: None,
        abort_prone: false,
        probes: &["probe.serialized", "probe.nested_map_size_differs_from_root", "probe.serialized_with_conflict", "probe.length_contract_checked"],
        fault_kinds: &["fault.reorder"],
    }
}

pub fn def_c37() -> PropDef {
    PropDef {
        id: "C37",
        title: "Public API calls never panic",
        level: "exploration",
        profile: profile_c37,
        oracle: |_cfg| Box::new(C37::default()),
        quick_runs: 6_000,
        thorough_runs: 500_000,
        panic_is_violation: true,
        rule: "run = multi-replica history in which about a third of the editing calls are 'confused' (object ids of other replicas or other kinds, out-of-range indexes and ranges), plus isolation, fork_at, actor switches, rollbacks, empty changes, gossip, merges, saves; at probe points a battery of reads and calls is made with stale/foreign object ids, heads that are unknown to the document or not an antichain, cursors of other objects, out-of-range and reversed ranges, wrong object kinds, and hydrate::Value::apply_patches is fed the patches the library itself produced; any panic is a violation (identified by source file + message with digits and quoted content removed). non-trivial = at least one confused call and one battery were executed; distinct by digest of the (call kind, outcome) sequence",
        custom: None,
        abort_prone: true,
        probes: &["probe.confused_calls", "probe.battery_runs", "probe.apply_patches_fed", "probe.foreign_heads_used", "probe.non_antichain_heads_used", "edit.err"],
        fault_kinds: &["fault.confused_call", "fault.reorder", "fault.crash.clean"],
    }
}

pub fn profile_c31() -> Profile {
    Profile { replicas: (2, 4), events: (15, 130), w_merge: 5, w_probe: 1, e_mark: 6, e_inc: 8, max_keys: 4, ..Profile::default() }
}

pub fn profile_c32() -> Profile {
    Profile { replicas: (2, 4), events: (15, 130), w_merge: 5, w_probe: 3, e_put_obj: 14, e_insert_obj: 6, max_keys: 6, ..Profile::default() }
}

pub fn profile_c37() -> Profile {
    Profile {
        replicas: (2, 4),
        events: (15, 150),
        confused_permille: 350,
        w_probe: 6,
        w_merge: 4,
        w_fork: 1,
        w_fork_at: 2,
        w_set_actor: 1,
        w_isolate: 3,
        w_integrate: 3,
        w_rollback: 3,
        w_empty: 3,
        w_save: 1,
        w_crash: 1,
        w_connect: 1,
        w_gen: 4,
        w_recv: 4,
        e_block: 4,
        e_update_text: 3,
        tables: true,
        counters_in_seqs: true,
        inc_on_conflicted_counters: true,
        ..Profile::default()
    }
}

// ------------------------------------------------------------------------------------------------
// C31

#[derive(Default)]
pub struct C31 {
    nontrivial: bool,
    digest: Fnv,
}

#[derive(PartialEq, Debug)]
enum Shape {
    Scalar(&'static str),
    Map(Vec<(usize, Shape)>),
    List(Vec<(usize, Shape)>),
    Text(usize, usize),
}

fn shape_of(t: &Tree) -> Shape {
    fn reg(r: &Reg) -> (usize, Shape) {
        let s = match &r.winner().unwrap().1 {
            Val::Scalar(s) => Shape::Scalar(match s {
                Sv::Null => "null",
                Sv::Bool(_) => "bool",
                Sv::Int(_) => "int",
                Sv::Uint(_) => "uint",
                Sv::F64(_) => "f64",
                Sv::Str(_) => "str",
                Sv::Bytes(_) => "bytes",
                Sv::Counter(_) => "counter",
                Sv::Ts(_) => "ts",
                Sv::Unknown(..) => "unknown",
            }),
            Val::Obj(t) => shape_of(t),
        };
        (r.vals.len(), s)
    }
    match t {
        Tree::Map(_, m) => {
            // keys are replaced, so the order of entries is not preserved: compare as a sorted multiset
            let mut v: Vec<(usize, Shape)> = m.values().map(reg).collect();
            v.sort_by_key(|x| format!("{x:?}"));
            Shape::Map(v)
        }
        Tree::List(l) => Shape::List(l.iter().map(reg).collect()),
        Tree::Text(t) => Shape::Text(t.len_units(), t.elems.len()),
    }
}

/// the shape with every text width blanked (map entries re-sorted, because the sort key contains the width)
fn without_widths(s: &Shape) -> Shape {
    match s {
        Shape::Scalar(k) => Shape::Scalar(k),
        Shape::Text(_, e) => Shape::Text(0, *e),
        Shape::List(v) => Shape::List(v.iter().map(|(c, x)| (*c, without_widths(x))).collect()),
        Shape::Map(v) => {
            let mut v: Vec<(usize, Shape)> = v.iter().map(|(c, x)| (*c, without_widths(x))).collect();
            v.sort_by_key(|x| format!("{x:?}"));
            Shape::Map(v)
        }
    }
}

fn shape_diff(a: &Shape, b: &Shape) -> &'static str {
    // map entries are compared as sorted multisets and the sort key contains the text width: when only widths differ
    // the entries pair up wrongly and the positional walk below would name another class
    if without_widths(a) == without_widths(b) {
        return "text-width";
    }
    fn regs(x: &[(usize, Shape)], y: &[(usize, Shape)], count: &'static str) -> &'static str {
        if x.len() != y.len() {
            return count;
        }
        for ((ca, sa), (cb, sb)) in x.iter().zip(y.iter()) {
            if ca != cb {
                return "conflict-size";
            }
            if sa != sb {
                return shape_diff(sa, sb);
            }
        }
        "other"
    }
    match (a, b) {
        (Shape::Map(x), Shape::Map(y)) => regs(x, y, "key-count"),
        (Shape::List(x), Shape::List(y)) => regs(x, y, "list-length"),
        (Shape::Text(w1, e1), Shape::Text(w2, e2)) => {
            if e1 != e2 {
                "text-elements"
            } else if w1 != w2 {
                "text-width"
            } else {
                "other"
            }
        }
        (Shape::Scalar(_), Shape::Scalar(_)) => "scalar-type",
        _ => "kind",
    }
}

fn graph_shape(doc: &mut AutoCommit) -> (Vec<String>, Vec<Hash>) {
    let changes = doc.document().get_changes(&[]);
    let mut actors: Vec<Vec<u8>> = Vec::new();
    let idx: BTreeMap<Hash, usize> = changes.iter().enumerate().map(|(i, c)| (c.hash().0, i)).collect();
    let mut out = Vec::new();
    for c in &changes {
        let e = c.decode();
        let a = e.actor_id.to_bytes().to_vec();
        let ai = match actors.iter().position(|x| *x == a) {
            Some(i) => i,
            None => {
                actors.push(a);
                actors.len() - 1
            }
        };
        let mut deps: Vec<usize> = e.deps.iter().map(|d| *idx.get(&d.0).unwrap_or(&usize::MAX)).collect();
        deps.sort();
        let ops: Vec<String> = e
            .operations
            .iter()
            .map(|o| {
                use automerge::legacy as l;
                let k = match &o.action {
                    l::OpType::Make(t) => format!("make{t:?}"),
                    l::OpType::Put(v) => format!("put{}", match v {
                        automerge::ScalarValue::Str(_) => 1,
                        automerge::ScalarValue::Int(_) => 2,
                        automerge::ScalarValue::Uint(_) => 3,
                        automerge::ScalarValue::F64(_) => 4,
                        automerge::ScalarValue::Counter(_) => 5,
                        automerge::ScalarValue::Timestamp(_) => 6,
                        automerge::ScalarValue::Boolean(_) => 7,
                        automerge::ScalarValue::Bytes(_) => 8,
                        automerge::ScalarValue::Null => 9,
                        _ => 10,
                    }),
                    l::OpType::Delete => "del".into(),
                    l::OpType::Increment(_) => "inc".into(),
                    l::OpType::MarkBegin(m) => format!("markbegin{}", m.expand),
                    l::OpType::MarkEnd(e) => format!("markend{e}"),
                };
                let key = match &o.key {
                    l::Key::Map(_) => "k",
                    l::Key::Seq(l::ElementId::Head) => "h",
                    l::Key::Seq(_) => "e",
                };
                format!("{k}/{key}/{}/{}", o.insert, o.pred.len())
            })
            .collect();
        out.push(format!("a{ai} s{} o{} d{deps:?} m{} {}", e.seq, e.start_op, e.message.is_some(), ops.join(",")));
    }
    (out, changes.iter().map(|c| c.hash().0).collect())
}

impl C31 {
    fn check(&mut self, w: &mut World, r: usize) -> Result<(), Violation> {
        if w.reps[r].isolated.is_some() || w.reps[r].tainted {
            return Ok(());
        }
        w.commit_pending(r);
        if w.reps[r].known.is_empty() {
            return Ok(());
        }
        // in one run of four the document also gets a string from the far end of the Basic Multilingual Plane (variation
        // selector, ligature, fullwidth letter, replacement character): three-byte characters next to the surrogate gap, which
        // the generator's alphabet (ASCII, Latin-1, emoji, ZWJ sequences) does not contain
        if w.cfg.p1 % 4 == 2 {
            let exotic = ["\u{2764}\u{fe0f}", "\u{fb01}x", "\u{ff21}\u{ff22}", "a\u{fffd}b"][(w.cfg.p2 % 4) as usize];
            w.exec(&Ev::Edit { r: r as u8, op: EditOp::Put { obj: ObjSel::Root, key: w.cfg.p2, val: SvE::Str(exotic.to_string()) } });
            w.exec(&Ev::Commit { r: r as u8, msg: None, dt: 1 });
            w.stats.bump("probe.far_bmp_string");
        }
        let step = w.step;
        let fail = |oracle: &str, sig: &str, d: String| violation("C31", oracle, sig, step, format!("replica {r}: {d}"));
        let mut anon = match w.reps[r].doc.anonymize() {
            Ok(a) => a,
            Err(e) => return Err(fail("anonymize_succeeds", &format!("anonymize-failed:{}", sig_of_detail(&format!("{e}"))), format!("{e}"))),
        };
        w.stats.bump("probe.anonymized");
        let (g1, order1) = graph_shape(&mut w.reps[r].doc);
        let (g2, order2) = graph_shape(&mut anon);
        if g1.len() != g2.len() {
            return Err(fail("same_change_count", "change-count-differs", format!("{} changes vs {} after anonymization", g1.len(), g2.len())));
        }
        for (i, (a, b)) in g1.iter().zip(g2.iter()).enumerate() {
            if a != b {
                return Err(fail("change_graph_isomorphic", "change-shape-differs", format!("change {i} of {}: {a} vs {b}", g1.len())));
            }
            self.digest.str(a);
        }
        // state shape at current heads and at mapped historical heads
        let mut head_sets: Vec<Option<Vec<Hash>>> = vec![None];
        for k in 0..2u32 {
            if let Some(h) = w.pick_heads(r, w.cfg.p2.wrapping_add(k * 31)) {
                if !h.is_empty() {
                    head_sets.push(Some(h));
                }
            }
        }
        let enc = w.cfg.enc;
        let _ = enc;
        for hs in head_sets {
            let mapped: Option<Vec<Hash>> = match &hs {
                None => None,
                Some(h) => {
                    let m: Option<Vec<Hash>> = h.iter().map(|x| order1.iter().position(|y| y == x).map(|i| order2[i])).collect();
                    match m {
                        Some(m) => {
                            w.stats.bump("probe.anon_historical_checked");
                            Some(m)
                        }
                        None => continue,
                    }
                }
            };
            let t1 = observe(&w.reps[r].doc, hs.as_deref()).map_err(|e| fail("reads", "read-inconsistency", e.0.clone()))?;
            let t2 = observe(&anon, mapped.as_deref()).map_err(|e| fail("anon_reads", &read_sig(&e.0), e.0.clone()))?;
            let (s1, s2) = (shape_of(&t1), shape_of(&t2));
            if s1 != s2 {
                let cls = shape_diff(&s1, &s2);
                return Err(fail("same_state_shape", &format!("state-shape-differs:{cls}:{:?}", w.cfg.enc), format!("at {} heads: {:?} vs {:?}", if hs.is_some() { "historical" } else { "current" }, s1, s2).chars().take(700).collect()));
            }
            fn has(t: &Tree, f: &dyn Fn(&Tree, &Reg) -> bool) -> bool {
                let regs: Vec<&Reg> = match t {
                    Tree::Map(_, m) => m.values().collect(),
                    Tree::List(l) => l.iter().collect(),
                    Tree::Text(x) => x.elems.iter().collect(),
                };
                regs.iter().any(|r| f(t, r) || r.vals.iter().any(|(_, v)| matches!(v, Val::Obj(t2) if has(t2, f))))
            }
            if hs.is_none() {
                let conflict = has(&t1, &|_, r| r.conflict());
                let marks = has(&t1, &|t, _| matches!(t, Tree::Text(x) if x.marks.iter().any(|m| !m.is_empty())));
                if conflict {
                    w.stats.bump("probe.anon_with_conflict");
                }
                if marks {
                    w.stats.bump("probe.anon_with_marks");
                }
                let actors: std::collections::BTreeSet<_> = w.reps[r].known.iter().filter_map(|h| w.reg.get(h)).map(|c| c.actor.clone()).collect();
                if (conflict || marks) && actors.len() >= 2 {
                    self.nontrivial = true;
                }
            }
        }
        // reload
        let bytes = anon.document().save();
        match AutoCommit::load_with_options(&bytes, automerge::LoadOptions::new().text_encoding(w.cfg.enc.to_am())) {
            Ok(d2) => {
                w.stats.bump("probe.anon_reload_checked");
                let a = observe(&anon, None).map_err(|e| fail("anon_reads", "read-inconsistency", e.0.clone()))?;
                let b = observe(&d2, None).map_err(|e| fail("anon_reload_reads", "read-inconsistency", e.0.clone()))?;
                if let Some(d) = tree_diff(&a, &b) {
                    return Err(fail("anon_reloads_equal", &format!("reload-differs:{}", sig_of_detail(&d)), d));
                }
            }
            Err(e) => return Err(fail("anon_reloads", &format!("reload-failed:{}", sig_of_detail(&format!("{e}"))), format!("load(save(anonymized)) failed: {e}"))),
        }
        Ok(())
    }
}

impl Oracle for C31 {
    fn after(&mut self, w: &mut World, ev: &Ev, _out: &Outcome) -> Result<(), Violation> {
        if let Ev::Probe { r, .. } = ev {
            let r = w.rsel(*r);
            self.check(w, r)?;
        }
        Ok(())
    }
    fn finish(&mut self, w: &mut World) -> Result<(), Violation> {
        for r in 0..w.n() {
            self.check(w, r)?;
        }
        Ok(())
    }
    fn nontrivial(&self, _w: &World) -> Option<u64> {
        if self.nontrivial {
            Some(self.digest.finish())
        } else {
            None
        }
    }
}

// ------------------------------------------------------------------------------------------------
// C32: a serializer that enforces the length contract

pub mod strict {
    use serde::ser::*;
    use serde_json::Value as J;

    #[derive(Debug)]
    pub struct Err(pub String);
    impl std::fmt::Display for Err {
        fn fmt(&self, f: &mut std::fmt::Formatter<'_>) -> std::fmt::Result {
            write!(f, "{}", self.0)
        }
    }
    impl std::error::Error for Err {}
    impl serde::ser::Error for Err {
        fn custom<T: std::fmt::Display>(msg: T) -> Self {
            Err(msg.to_string())
        }
    }

    pub struct Ser;
    pub struct SeqS {
        announced: Option<usize>,
        items: Vec<J>,
    }
    pub struct MapS {
        announced: Option<usize>,
        items: Vec<(String, J)>,
        key: Option<String>,
    }

    impl Serializer for Ser {
        type Ok = J;
        type Error = Err;
        type SerializeSeq = SeqS;
        type SerializeTuple = SeqS;
        type SerializeTupleStruct = SeqS;
        type SerializeTupleVariant = SeqS;
        type SerializeMap = MapS;
        type SerializeStruct = MapS;
        type SerializeStructVariant = MapS;
        fn serialize_bool(self, v: bool) -> Result<J, Err> { Ok(J::Bool(v)) }
        fn serialize_i8(self, v: i8) -> Result<J, Err> { Ok(J::from(v)) }
        fn serialize_i16(self, v: i16) -> Result<J, Err> { Ok(J::from(v)) }
        fn serialize_i32(self, v: i32) -> Result<J, Err> { Ok(J::from(v)) }
        fn serialize_i64(self, v: i64) -> Result<J, Err> { Ok(J::from(v)) }
        fn serialize_u8(self, v: u8) -> Result<J, Err> { Ok(J::from(v)) }
        fn serialize_u16(self, v: u16) -> Result<J, Err> { Ok(J::from(v)) }
        fn serialize_u32(self, v: u32) -> Result<J, Err> { Ok(J::from(v)) }
        fn serialize_u64(self, v: u64) -> Result<J, Err> { Ok(J::from(v)) }
        fn serialize_f32(self, v: f32) -> Result<J, Err> { Ok(serde_json::Number::from_f64(v as f64).map(J::Number).unwrap_or(J::Null)) }
        fn serialize_f64(self, v: f64) -> Result<J, Err> { Ok(serde_json::Number::from_f64(v).map(J::Number).unwrap_or(J::Null)) }
        fn serialize_char(self, v: char) -> Result<J, Err> { Ok(J::String(v.to_string())) }
        fn serialize_str(self, v: &str) -> Result<J, Err> { Ok(J::String(v.to_string())) }
        fn serialize_bytes(self, v: &[u8]) -> Result<J, Err> { Ok(J::Array(v.iter().map(|x| J::from(*x)).collect())) }
        fn serialize_none(self) -> Result<J, Err> { Ok(J::Null) }
        fn serialize_some<T: ?Sized + Serialize>(self, v: &T) -> Result<J, Err> { v.serialize(Ser) }
        fn serialize_unit(self) -> Result<J, Err> { Ok(J::Null) }
        fn serialize_unit_struct(self, _: &'static str) -> Result<J, Err> { Ok(J::Null) }
        fn serialize_unit_variant(self, _: &'static str, _: u32, v: &'static str) -> Result<J, Err> { Ok(J::String(v.into())) }
        fn serialize_newtype_struct<T: ?Sized + Serialize>(self, _: &'static str, v: &T) -> Result<J, Err> { v.serialize(Ser) }
        fn serialize_newtype_variant<T: ?Sized + Serialize>(self, _: &'static str, _: u32, _: &'static str, v: &T) -> Result<J, Err> { v.serialize(Ser) }
        fn serialize_seq(self, len: Option<usize>) -> Result<SeqS, Err> { Ok(SeqS { announced: len, items: vec![] }) }
        fn serialize_tuple(self, len: usize) -> Result<SeqS, Err> { Ok(SeqS { announced: Some(len), items: vec![] }) }
        fn serialize_tuple_struct(self, _: &'static str, len: usize) -> Result<SeqS, Err> { Ok(SeqS { announced: Some(len), items: vec![] }) }
        fn serialize_tuple_variant(self, _: &'static str, _: u32, _: &'static str, len: usize) -> Result<SeqS, Err> { Ok(SeqS { announced: Some(len), items: vec![] }) }
        fn serialize_map(self, len: Option<usize>) -> Result<MapS, Err> { Ok(MapS { announced: len, items: vec![], key: None }) }
        fn serialize_struct(self, _: &'static str, len: usize) -> Result<MapS, Err> { Ok(MapS { announced: Some(len), items: vec![], key: None }) }
        fn serialize_struct_variant(self, _: &'static str, _: u32, _: &'static str, len: usize) -> Result<MapS, Err> { Ok(MapS { announced: Some(len), items: vec![], key: None }) }
    }

    impl SeqS {
        fn done(self) -> Result<J, Err> {
            if let Some(n) = self.announced {
                if n != self.items.len() {
                    return Result::Err(Err(format!("LENGTH-CONTRACT: sequence announced {n} elements and produced {}", self.items.len())));
                }
            }
            Ok(J::Array(self.items))
        }
    }
    impl SerializeSeq for SeqS {
        type Ok = J;
        type Error = Err;
        fn serialize_element<T: ?Sized + Serialize>(&mut self, v: &T) -> Result<(), Err> { self.items.push(v.serialize(Ser)?); Ok(()) }
        fn end(self) -> Result<J, Err> { self.done() }
    }
    impl SerializeTuple for SeqS {
        type Ok = J;
        type Error = Err;
        fn serialize_element<T: ?Sized + Serialize>(&mut self, v: &T) -> Result<(), Err> { self.items.push(v.serialize(Ser)?); Ok(()) }
        fn end(self) -> Result<J, Err> { self.done() }
    }
    impl SerializeTupleStruct for SeqS {
        type Ok = J;
        type Error = Err;
        fn serialize_field<T: ?Sized + Serialize>(&mut self, v: &T) -> Result<(), Err> { self.items.push(v.serialize(Ser)?); Ok(()) }
        fn end(self) -> Result<J, Err> { self.done() }
    }
    impl SerializeTupleVariant for SeqS {
        type Ok = J;
        type Error = Err;
        fn serialize_field<T: ?Sized + Serialize>(&mut self, v: &T) -> Result<(), Err> { self.items.push(v.serialize(Ser)?); Ok(()) }
        fn end(self) -> Result<J, Err> { self.done() }
    }
    impl MapS {
        fn done(self) -> Result<J, Err> {
            if let Some(n) = self.announced {
                if n != self.items.len() {
                    return Result::Err(Err(format!("LENGTH-CONTRACT: map announced {n} entries and produced {}", self.items.len())));
                }
            }
            Ok(J::Object(self.items.into_iter().collect()))
        }
    }
    impl SerializeMap for MapS {
        type Ok = J;
        type Error = Err;
        fn serialize_key<T: ?Sized + Serialize>(&mut self, k: &T) -> Result<(), Err> {
            self.key = Some(match k.serialize(Ser)? { J::String(s) => s, other => other.to_string() });
            Ok(())
        }
        fn serialize_value<T: ?Sized + Serialize>(&mut self, v: &T) -> Result<(), Err> {
            let k = self.key.take().unwrap_or_default();
            self.items.push((k, v.serialize(Ser)?));
            Ok(())
        }
        fn end(self) -> Result<J, Err> { self.done() }
    }
    impl SerializeStruct for MapS {
        type Ok = J;
        type Error = Err;
        fn serialize_field<T: ?Sized + Serialize>(&mut self, k: &'static str, v: &T) -> Result<(), Err> { self.items.push((k.to_string(), v.serialize(Ser)?)); Ok(()) }
        fn end(self) -> Result<J, Err> { self.done() }
    }
    impl SerializeStructVariant for MapS {
        type Ok = J;
        type Error = Err;
        fn serialize_field<T: ?Sized + Serialize>(&mut self, k: &'static str, v: &T) -> Result<(), Err> { self.items.push((k.to_string(), v.serialize(Ser)?)); Ok(()) }
        fn end(self) -> Result<J, Err> { self.done() }
    }
}

#[derive(Default)]
pub struct C32 {
    nontrivial: bool,
    digest: Fnv,
}

impl C32 {
    fn check(&mut self, w: &mut World, r: usize) -> Result<(), Violation> {
        if w.reps[r].isolated.is_some() || w.reps[r].tainted {
            return Ok(());
        }
        w.commit_pending(r);
        let step = w.step;
        let fail = |oracle: &str, sig: &str, d: String| violation("C32", oracle, sig, step, format!("replica {r}: {d}"));
        let tree = observe_replica(w, r, "C32", "reads")?;
        let want = plain::to_json(&plain::of_tree(&tree));
        w.stats.bump("probe.serialized");
        self.digest.u64(tree.digest());
        // probes
        if let Tree::Map(_, m) = &tree {
            let root_n = m.len();
            fn nested_differs(t: &Tree, root_n: usize, top: bool) -> bool {
                match t {
                    Tree::Map(_, m) => (!top && m.len() != root_n) || m.values().any(|r| matches!(r.winner(), Some((_, Val::Obj(t))) if nested_differs(t, root_n, false))),
                    Tree::List(l) => l.iter().any(|r| matches!(r.winner(), Some((_, Val::Obj(t))) if nested_differs(t, root_n, false))),
                    Tree::Text(_) => false,
                }
            }
            if nested_differs(&tree, root_n, true) {
                w.stats.bump("probe.nested_map_size_differs_from_root");
                self.nontrivial = true;
            }
            if m.values().any(|r| r.conflict()) {
                w.stats.bump("probe.serialized_with_conflict");
                self.nontrivial = true;
            }
        }
        let doc = &w.reps[r].doc;
        let got = serde_json::to_value(automerge::AutoSerde::from(doc)).map_err(|e| fail("json_export", "json-export-failed", format!("{e}")))?;
        if got != want {
            return Err(fail("json_equals_state", "json-differs", format!("AutoSerde JSON {} vs state {}", got.to_string().chars().take(300).collect::<String>(), want.to_string().chars().take(300).collect::<String>())));
        }
        w.stats.bump("probe.length_contract_checked");
        match serde::Serialize::serialize(&automerge::AutoSerde::from(doc), strict::Ser) {
            Ok(v) => {
                if v != want {
                    return Err(fail("strict_equals_state", "strict-export-differs", "the length-enforcing serializer produced a different value".to_string()));
                }
            }
            Err(e) => {
                let sig = if e.0.contains("map announced") { "length-contract-map" } else if e.0.contains("sequence announced") { "length-contract-seq" } else { "strict-export-failed" };
                return Err(fail("length_contract", sig, e.0));
            }
        }
        Ok(())
    }
}

impl Oracle for C32 {
    fn after(&mut self, w: &mut World, ev: &Ev, _out: &Outcome) -> Result<(), Violation> {
        if let Ev::Probe { r, .. } = ev {
            let r = w.rsel(*r);
            self.check(w, r)?;
        }
        Ok(())
    }
    fn finish(&mut self, w: &mut World) -> Result<(), Violation> {
        for r in 0..w.n() {
            self.check(w, r)?;
        }
        Ok(())
    }
    fn nontrivial(&self, _w: &World) -> Option<u64> {
        if self.nontrivial {
            Some(self.digest.finish())
        } else {
            None
        }
    }
}

// ------------------------------------------------------------------------------------------------
// C37

#[derive(Default)]
pub struct C37 {
    confused: u64,
    batteries: u64,
    digest: Fnv,
    views: Vec<Option<automerge::hydrate::Value>>,
}

impl C37 {
    fn battery(&mut self, w: &mut World, r: usize, sel: u32) {
        use automerge::transaction::Transactable;
        let mut rng = Rng::new(sel as u64 ^ 0xBA77);
        self.batteries += 1;
        w.stats.bump("probe.battery_runs");
        // argument pools
        let ids: Vec<ObjId> = w.pool.iter().map(|p| p.id.clone()).collect();
        let mut heads_pool: Vec<Vec<automerge::ChangeHash>> = w.head_sets.iter().map(|h| to_hashes(h)).collect();
        heads_pool.push(vec![automerge::ChangeHash([0xAB; 32])]);
        // non-antichain: a head and one of its ancestors
        if let Some(c) = w.reg.order.iter().filter_map(|h| w.reg.get(h)).find(|c| !c.deps.is_empty()) {
            heads_pool.push(vec![automerge::ChangeHash(c.hash), automerge::ChangeHash(c.deps[0])]);
            w.stats.bump("probe.non_antichain_heads_used");
        }
        // everything every replica knows, as one head set (mostly not an antichain, partly foreign)
        heads_pool.push(w.reg.order.iter().take(6).map(|h| automerge::ChangeHash(*h)).collect());
        w.stats.bump("probe.foreign_heads_used");
        let idxs = [0usize, 1, 2, 7, usize::MAX, usize::MAX - 1, 1 << 40];
        let doc = &mut w.reps[r].doc;
        for _ in 0..6 {
            let id = ids[rng.usize(ids.len())].clone();
            let hs = heads_pool[rng.usize(heads_pool.len())].clone();
            let i = *rng.pickv(&idxs);
            let j = *rng.pickv(&idxs);
            crate::monitor::set_subcontext("reads with foreign/stale ids, heads and indexes");
            let _ = doc.object_type(&id);
            let _ = doc.keys_at(&id, &hs).count();
            let _ = doc.length_at(&id, &hs);
            let _ = doc.get_at(&id, i, &hs);
            let _ = doc.get_all_at(&id, "a", &hs);
            let _ = doc.text_at(&id, &hs);
            let _ = doc.marks_at(&id, &hs);
            let _ = doc.get_marks(&id, i, Some(&hs));
            let _ = doc.get_marks(&id, i, None);
            let _ = doc.spans_at(&id, &hs).map(|s| s.count());
            let _ = doc.spans(&id).map(|s| s.count());
            let _ = doc.list_range(&id, i..j).count();
            let _ = doc.list_range_at(&id, j..i, &hs).count();
            let _ = doc.map_range(&id, "a".to_string().."b".to_string()).count();
            let _ = doc.map_range_at(&id, "b".to_string().."a".to_string(), &hs).count();
            let _ = doc.values(&id).count();
            let _ = doc.values_at(&id, &hs).count();
            let _ = doc.parents(&id).map(|p| p.count());
            let _ = doc.parents_at(&id, &hs).map(|p| p.count());
            let _ = doc.hydrate(&id, Some(&hs));
            let _ = doc.hydrate(&id, None);
            let _ = doc.iter_at(&id, Some(&hs)).count();
            let _ = doc.get_missing_deps(&hs);
            let _ = doc.get_cursor(&id, i, Some(&hs));
            let _ = doc.get_cursor(&id, i, None);
            // cursors of other objects
            let other = ids[rng.usize(ids.len())].clone();
            if let Ok(c) = doc.get_cursor(&other, 0, None) {
                let _ = doc.get_cursor_position(&id, &c, None);
                let _ = doc.get_cursor_position(&id, &c, Some(&hs));
            }
            crate::monitor::set_subcontext("diff / fork_at / get_changes with foreign heads");
            let hs2 = heads_pool[rng.usize(heads_pool.len())].clone();
            let _ = doc.diff(&hs, &hs2);
            let _ = doc.diff_obj(&id, &hs, &hs2, rng.bool());
            let _ = doc.fork_at(&hs);
            let _ = doc.get_changes(&hs);
            let _ = doc.save_after(&hs);
            let _ = doc.hash_for_opid(&id);
            let _ = doc.import(&id.to_string());
            crate::monitor::set_subcontext("edits on a clone with reversed / out-of-range arguments");
            let mut c = doc.clone();
            let _ = c.splice_text(&id, i, j as isize, "x");
            let _ = c.splice_text(&id, 1, -5, "x");
            let _ = c.mark(&id, automerge::marks::Mark::new("bold".into(), true, j.min(1 << 20), i.min(1 << 20)), automerge::marks::ExpandMark::Both);
            let _ = c.unmark(&id, "bold", 5, 1, automerge::marks::ExpandMark::None);
            let _ = c.delete(&id, i);
            let _ = c.insert(&id, i, 1);
            let _ = c.increment(&id, "a", 1);
            let _ = c.split_block(&id, i);
            let _ = c.join_block(&id, i);
            let _ = c.update_text(&id, "zz");
            let _ = c.put_object(&id, i, automerge::ObjType::Map);
            c.isolate(&hs);
            let _ = c.put(ROOT, "iso", 1);
            let _ = c.keys(ROOT).count();
            c.integrate();
            let _ = c.commit();
        }
    }

    /// feed hydrate::Value::apply_patches the patches the library produced for this replica
    fn feed_patches(&mut self, w: &mut World, r: usize) {
        while self.views.len() < w.n() {
            self.views.push(None);
        }
        if w.reps[r].doc.pending_ops() > 0 || w.reps[r].isolated.is_some() {
            return;
        }
        let enc = w.cfg.enc.to_am();
        let patches = w.reps[r].doc.diff_incremental();
        if self.views[r].is_none() {
            self.views[r] = Some(automerge::hydrate::Value::map());
        }
        if !patches.is_empty() {
            w.stats.bump("probe.apply_patches_fed");
            crate::monitor::set_subcontext("hydrate::Value::apply_patches fed the library's own patches");
            let v = self.views[r].as_mut().unwrap();
            if v.apply_patches(enc, patches).is_err() {
                // an Err is not a panic; start over from a fresh hydrate so that later patches still make sense
                self.views[r] = w.reps[r].doc.hydrate(&ROOT, None).ok();
            }
        }
    }
}

impl Oracle for C37 {
    fn after(&mut self, w: &mut World, ev: &Ev, out: &Outcome) -> Result<(), Violation> {
        match (ev, out) {
            (Ev::Probe { r, arg }, _) => {
                let r = w.rsel(*r);
                self.battery(w, r, *arg);
                self.digest.u64(*arg as u64);
            }
            (Ev::Edit { op, .. }, Outcome::Edit { result, .. }) => {
                let confused = format!("{op:?}").contains("Any(");
                if confused {
                    self.confused += 1;
                    w.stats.bump("probe.confused_calls");
                    w.stats.bump("fault.confused_call");
                }
                self.digest.str(ev.kind());
                self.digest.u64(result.is_ok() as u64);
            }
            (_, Outcome::Restarted { r, .. }) | (_, Outcome::Forked { new: r, .. }) => {
                while self.views.len() < w.n() {
                    self.views.push(None);
                }
                self.views[*r] = None;
            }
            (_, Outcome::Committed { r, .. }) | (_, Outcome::Delivered { to: r, .. }) | (_, Outcome::Merged { to: r, .. }) | (_, Outcome::SyncRecv { to: r, .. }) if w.cfg.p1 % 4 == 0 => {
                self.feed_patches(w, *r);
            }
            _ => {}
        }
        Ok(())
    }
    fn finish(&mut self, w: &mut World) -> Result<(), Violation> {
        for r in 0..w.n() {
            if w.reps[r].isolated.is_some() {
                w.exec(&Ev::Integrate { r: r as u8 });
            }
            w.commit_pending(r);
            if w.cfg.p1 % 4 == 0 {
                // quarantine: hydrate's apply_patches has a known todo!() for Mark patches (see known_findings.json);
                // feeding it in every run would stop three quarters of the runs before they reach anything else
                self.feed_patches(w, r);
            }
            self.battery(w, r, w.cfg.p2.wrapping_add(r as u32));
            crate::monitor::set_subcontext("final save / load");
            let b = w.reps[r].doc.document().save();
            let _ = AutoCommit::load(&b);
        }
        Ok(())
    }
    fn nontrivial(&self, _w: &World) -> Option<u64> {
        if self.confused > 0 && self.batteries > 0 {
            Some(self.digest.finish())
        } else {
            None
        }
    }
}
