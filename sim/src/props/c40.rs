//! C40 Loading with string migration turns visible strings into text and nothing else.

use super::*;
use crate::events::*;
use crate::gen::Profile;
use crate::prng::Fnv;
use automerge::AutoCommit;
use std::collections::BTreeSet;

pub fn def() -> PropDef {
    PropDef {
        id: "C40",
        title: "String migration on load",
        level: "exploration",
        profile,
        oracle: |_cfg| Box::new(C40::default()),
        quick_runs: 90_000,
        thorough_runs: 800_000,
        panic_is_violation: false,
        rule: "run = seeded multi-replica history with string scalars in maps and lists (conflicted, deleted, overwritten, nested, in unreachable objects); at every save and at the end the saved bytes are loaded with StringMigration::ConvertToText and compared register by register, over EVERY object (reachable or not), with the reference interpreter: no visible string left in a map or list, a text object holding the greatest-id string where strings were visible, all other registers unchanged, and no added change when no string was visible anywhere; non-trivial = at least one visible string was migrated; distinct by digest of the saved bytes",
        custom: None,
        abort_prone: false,
        probes: &["probe.migrations_checked", "probe.strings_migrated", "probe.conflicted_string_register", "probe.string_in_unreachable_object", "probe.no_strings_no_change", "probe.string_in_list", "probe.mixed_register"],
        fault_kinds: &["fault.crash.clean", "fault.reorder"],
    }
}

pub fn profile() -> Profile {
    Profile {
        replicas: (1, 4),
        events: (8, 120),
        w_save: 4,
        w_merge: 5,
        w_fork: 1,
        max_keys: 3,
        e_put: 30,
        e_insert: 16,
        e_delete: 10,
        e_put_obj: 8,
        e_splice_text: 4,
        e_mark: 1,
        e_unmark: 0,
        ..Profile::default()
    }
}

#[derive(Default)]
pub struct C40 {
    digest: Fnv,
    nontrivial: bool,
}

fn strings_of(r: &Reg) -> Vec<(&Oid, &String)> {
    r.vals
        .iter()
        .filter_map(|(id, v)| match v {
            Val::Scalar(Sv::Str(s)) => Some((id, s)),
            _ => None,
        })
        .collect()
}

impl C40 {
    fn check(&mut self, w: &mut World, r: usize, bytes: &[u8]) -> Result<(), Violation> {
        let step = w.step;
        let fail = |oracle: &str, sig: &str, d: String| violation("C40", oracle, sig, step, format!("replica {r}: {d}"));
        let enc = w.cfg.enc;
        let mut migrated = match AutoCommit::load_with_options(
            bytes,
            automerge::LoadOptions::new().text_encoding(enc.to_am()).migrate_strings(automerge::StringMigration::ConvertToText),
        ) {
            Ok(d) => d,
            Err(e) => return Err(fail("migrating_load_succeeds", &format!("load-failed:{}", sig_of_detail(&format!("{e}"))), format!("{e}"))),
        };
        w.stats.bump("probe.migrations_checked");
        let before_set: BTreeSet<Hash> = w.reps[r].known.clone();
        // changes after migration; new ones are converted into a private copy of the registry
        let mut reg2 = w.reg.clone();
        let mut after_set: BTreeSet<Hash> = BTreeSet::new();
        let mut added = 0usize;
        for ch in migrated.get_changes(&[]) {
            let h = ch.hash().0;
            after_set.insert(h);
            if !reg2.contains(&h) {
                reg2.insert(convert_change(&ch, step, usize::MAX));
                added += 1;
            }
        }
        if !before_set.iter().all(|h| after_set.contains(h)) {
            return Err(fail("history_kept", "history-lost", "the migrated document lost changes of the original".to_string()));
        }
        let before_changes: Vec<&MChange> = before_set.iter().map(|h| &*w.reg.changes[h]).collect();
        let after_changes: Vec<&MChange> = after_set.iter().map(|h| &*reg2.changes[h]).collect();
        let ib = Interp::new(before_changes.into_iter(), enc);
        let ia = Interp::new(after_changes.into_iter(), enc);
        // which objects are reachable (for the probe only)
        let mut any_string = false;
        let mut migrated_here = 0u64;
        for (obj, typ) in ib.all_objects() {
            if typ == OType::Text {
                continue;
            }
            let tb = ib.object(&obj, typ, 0);
            let ta = ia.object(&obj, typ, 0);
            let pairs: Vec<(String, Option<&Reg>, Option<&Reg>)> = match (&tb, &ta) {
                (Tree::Map(_, mb), Tree::Map(_, ma)) => {
                    let keys: BTreeSet<&String> = mb.keys().chain(ma.keys()).collect();
                    keys.into_iter().map(|k| (format!("{}/{k:?}", obj.show()), mb.get(k), ma.get(k))).collect()
                }
                (Tree::List(lb), Tree::List(la)) => {
                    if lb.len() != la.len() {
                        return Err(fail("list_shape_kept", "list-length-changed", format!("list {} had {} elements, {} after migration", obj.show(), lb.len(), la.len())));
                    }
                    (0..lb.len()).map(|i| (format!("{}/{i}", obj.show()), lb.get(i), la.get(i))).collect()
                }
                _ => return Err(fail("object_kind_kept", "object-kind-changed", format!("object {} changed kind", obj.show()))),
            };
            for (loc, rb, ra) in pairs {
                let strs = rb.map(strings_of).unwrap_or_default();
                if strs.is_empty() {
                    // untouched register
                    if !shallow_eq(rb, ra) {
                        return Err(fail("other_registers_unchanged", "unrelated-register-changed", format!("{loc} had no visible string but changed")));
                    }
                    continue;
                }
                any_string = true;
                migrated_here += 1;
                if strs.len() >= 2 {
                    w.stats.bump("probe.conflicted_string_register");
                }
                if rb.map_or(false, |r| r.vals.len() > strs.len()) {
                    w.stats.bump("probe.mixed_register");
                }
                if matches!(tb, Tree::List(_)) {
                    w.stats.bump("probe.string_in_list");
                }
                let want = strs.iter().max_by_key(|(id, _)| (*id).clone()).map(|(_, s)| (*s).clone()).unwrap();
                let ra = match ra {
                    Some(r) => r,
                    None => return Err(fail("string_becomes_text", "register-vanished", format!("{loc} held the string {want:?} and is gone after migration"))),
                };
                if !strings_of(ra).is_empty() {
                    return Err(fail("no_visible_string_left", "string-still-visible", format!("{loc} still has a visible string scalar after migration")));
                }
                let texts: Vec<&String> = ra
                    .vals
                    .iter()
                    .filter_map(|(_, v)| match v {
                        Val::Obj(t) => match &**t {
                            Tree::Text(tt) => Some(&tt.text),
                            _ => None,
                        },
                        _ => None,
                    })
                    .collect();
                if !texts.iter().any(|t| **t == want) {
                    return Err(fail("string_becomes_text", "text-content-wrong", format!("{loc} held strings with greatest-id value {want:?}; after migration its text objects read {texts:?}")));
                }
            }
        }
        // strings in objects created after... none: the after-document has the same objects plus new text objects
        let heads_before = heads_sorted(w.reg.heads_of(&before_set));
        let heads_after = heads_sorted(from_hashes(&migrated.get_heads()));
        if !any_string {
            w.stats.bump("probe.no_strings_no_change");
            if added != 0 || heads_before != heads_after {
                return Err(fail("no_strings_no_change", "change-added-without-strings", format!("no visible string in any object, yet {added} change(s) were added")));
            }
        } else {
            w.stats.add("probe.strings_migrated", migrated_here);
            self.nontrivial = true;
            self.digest.write(bytes);
            // strings visible only in unreachable objects
            let reachable_before = observe_replica(w, r, "C40", "reads")?;
            if !tree_has_string(&reachable_before) {
                w.stats.bump("probe.string_in_unreachable_object");
            }
            // the reachable tree of the migrated document must not show a string either (cross-check through the read API)
            let t = observe(&migrated, None).map_err(|e| fail("reads", "read-inconsistency", e.0.clone()))?;
            if tree_has_string(&t) {
                return Err(fail("no_visible_string_left", "string-still-visible", "the read API still shows a string scalar in a map or list".to_string()));
            }
        }
        Ok(())
    }
}

/// same ids, same scalar values, same object kinds (nested objects are compared in their own turn)
fn shallow_eq(a: Option<&Reg>, b: Option<&Reg>) -> bool {
    match (a, b) {
        (None, None) => true,
        (Some(a), Some(b)) => {
            a.vals.len() == b.vals.len()
                && a.vals.iter().zip(b.vals.iter()).all(|((ia, va), (ib, vb))| {
                    ia == ib
                        && match (va, vb) {
                            (Val::Scalar(x), Val::Scalar(y)) => x == y,
                            (Val::Obj(x), Val::Obj(y)) => std::mem::discriminant(&**x) == std::mem::discriminant(&**y),
                            _ => false,
                        }
                })
        }
        _ => false,
    }
}

fn tree_has_string(t: &Tree) -> bool {
    let regs: Vec<&Reg> = match t {
        Tree::Map(_, m) => m.values().collect(),
        Tree::List(l) => l.iter().collect(),
        Tree::Text(_) => return false,
    };
    regs.iter().any(|r| {
        r.vals.iter().any(|(_, v)| match v {
            Val::Scalar(Sv::Str(_)) => true,
            Val::Obj(t) => tree_has_string(t),
            _ => false,
        })
    })
}

impl Oracle for C40 {
    fn after(&mut self, w: &mut World, ev: &Ev, out: &Outcome) -> Result<(), Violation> {
        if let (Ev::Save { .. }, Outcome::Saved { r }) = (ev, out) {
            let bytes = w.reps[*r].disk.current[0].bytes.clone();
            self.check(w, *r, &bytes)?;
        }
        Ok(())
    }

    fn finish(&mut self, w: &mut World) -> Result<(), Violation> {
        for r in 0..w.n() {
            if w.reps[r].isolated.is_some() {
                continue;
            }
            w.commit_pending(r);
            let bytes = w.reps[r].doc.document().save();
            self.check(w, r, &bytes)?;
        }
        Ok(())
    }

    fn nontrivial(&self, _w: &World) -> Option<u64> {
        if self.nontrivial {
            Some(self.digest.finish())
        } else {
            None
        }
    }
}
