//! C05 Changes with missing dependencies are held back until they become ready.

use super::*;
use crate::events::*;
use crate::gen::Profile;
use crate::prng::{Fnv, Rng};
use automerge::Change;
use std::collections::BTreeSet;

pub fn def() -> PropDef {
    PropDef {
        id: "C05",
        title: "Held-back changes",
        level: "exploration",
        profile,
        oracle: |_cfg| Box::new(C05::default()),
        quick_runs: 80_000,
        thorough_runs: 1_000_000,
        panic_is_violation: false,
        rule: "run = seeded gossip-only history (no actor reuse) with reordering, loss, duplication, out-of-causal-order subsets, load_incremental streams and restarts with/without retained orphans; the harness tracks the delivered set D per replica, A = greatest dep-closed subset of D; after every delivery heads = max(A), applied set = A, state = R1(A), get_missing_deps = model; non-trivial = at least one change was held for >= 1 event; distinct by digest of the (held, released) sequence",
        custom: None,
        abort_prone: false,
        probes: &["probe.held_then_released", "probe.held_chain_ge3", "probe.missing_deps_nonempty", "probe.restart_with_orphans", "probe.restart_dropped_orphans"],
        fault_kinds: &["fault.reorder", "fault.dup", "fault.loss", "fault.crash.clean"],
    }
}

pub fn profile() -> Profile {
    Profile {
        replicas: (2, 5),
        events: (10, 120),
        w_send: 14,
        w_deliver: 16,
        w_dup: 2,
        w_drop: 2,
        w_merge: 0,
        w_fork: 1,
        w_save: 2,
        w_crash: 2,
        subset_sends: true,
        wire: vec![WireEnc::Raw, WireEnc::Compressed, WireEnc::Reencode, WireEnc::FullSave],
        ..Profile::default()
    }
}

#[derive(Default)]
pub struct C05 {
    held_prev: Vec<BTreeSet<Hash>>,
    any_held: bool,
    seq: Fnv,
}

pub fn model_missing(w: &World, r: usize, heads: &[Hash]) -> Vec<Hash> {
    let d = &w.reps[r].delivered;
    let a = &w.reps[r].known;
    let mut missing = BTreeSet::new();
    let mut seen = BTreeSet::new();
    let mut stack: Vec<Hash> = d.difference(a).cloned().collect();
    stack.extend(heads.iter().cloned());
    while let Some(h) = stack.pop() {
        if a.contains(&h) || !seen.insert(h) {
            continue;
        }
        if d.contains(&h) {
            if let Some(c) = w.reg.get(&h) {
                stack.extend(c.deps.iter().cloned());
            }
        } else {
            missing.insert(h);
        }
    }
    missing.into_iter().collect()
}

impl C05 {
    fn check(&mut self, w: &mut World, r: usize) -> Result<(), Violation> {
        while self.held_prev.len() < w.n() {
            self.held_prev.push(BTreeSet::new());
        }
        if w.reps[r].isolated.is_some() || w.reps[r].doc.pending_ops() > 0 {
            return Ok(());
        }
        let d = w.reps[r].delivered.clone();
        let a = w.reg.closed_subset(&d);
        let known = w.reps[r].known.clone();
        if known != a {
            let extra: Vec<String> = known.difference(&a).take(3).map(short).collect();
            let lacking: Vec<String> = a.difference(&known).take(3).map(short).collect();
            return Err(violation(
                "C05",
                "applied_is_closed_subset",
                if !lacking.is_empty() { "ready-change-not-applied" } else { "unready-change-applied" },
                w.step,
                format!(
                    "replica {r}: delivered {} changes, dep-closed part has {}, document reports {} applied; applied-but-not-ready {:?}; ready-but-not-applied {:?}",
                    d.len(),
                    a.len(),
                    known.len(),
                    extra,
                    lacking
                ),
            ));
        }
        let heads = heads_sorted(from_hashes(&w.reps[r].doc.get_heads()));
        let want_heads = heads_sorted(w.reg.heads_of(&a));
        if heads != want_heads {
            return Err(violation(
                "C05",
                "heads_exclude_held",
                "heads-wrong",
                w.step,
                format!("replica {r}: heads {:?}, expected {:?}", heads.iter().map(short).collect::<Vec<_>>(), want_heads.iter().map(short).collect::<Vec<_>>()),
            ));
        }
        // get_missing_deps, with no heads and with a few interesting head arguments
        let held: BTreeSet<Hash> = d.difference(&a).cloned().collect();
        let mut args: Vec<Vec<Hash>> = vec![vec![]];
        if let Some(h) = held.iter().next() {
            args.push(vec![*h]);
        }
        if let Some(h) = w.reg.order.iter().find(|h| !d.contains(*h)) {
            args.push(vec![*h]);
            if let Some(x) = a.iter().next() {
                args.push(vec![*x, *h]);
            }
        }
        for arg in args {
            let got = from_hashes(&w.reps[r].doc.get_missing_deps(&to_hashes(&arg)));
            let want = model_missing(w, r, &arg);
            if !want.is_empty() {
                w.stats.bump("probe.missing_deps_nonempty");
            }
            if heads_sorted(got.clone()) != want || got.len() != want.len() {
                return Err(violation(
                    "C05",
                    "missing_deps_model",
                    "missing-deps-wrong",
                    w.step,
                    format!(
                        "replica {r}: get_missing_deps({:?}) = {:?}, model says {:?} (held: {:?})",
                        arg.iter().map(short).collect::<Vec<_>>(),
                        got.iter().map(short).collect::<Vec<_>>(),
                        want.iter().map(short).collect::<Vec<_>>(),
                        held.iter().map(short).collect::<Vec<_>>()
                    ),
                ));
            }
        }
        // held changes have no visible effect: state = R1(A)
        let got = observe_replica(w, r, "C05", "state_is_r1_of_applied")?;
        let want = interpret(&w.reg, &a, w.cfg.enc);
        if let Some(dd) = tree_diff(&want, &got) {
            return Err(violation(
                "C05",
                "state_is_r1_of_applied",
                &format!("state-vs-model:{}", sig_of_detail(&dd)),
                w.step,
                format!("replica {r} ({} applied, {} held): {dd}", a.len(), held.len()),
            ));
        }
        // probes
        let prev = &self.held_prev[r];
        let released = prev.difference(&held).filter(|h| a.contains(*h)).count();
        if released > 0 {
            w.stats.bump("probe.held_then_released");
            self.seq.u64(1000 + released as u64);
        }
        if !held.is_empty() {
            self.any_held = true;
            self.seq.u64(held.len() as u64);
            // chain of held: a held change whose dep is held whose dep is held
            let chain = held.iter().any(|h| {
                w.reg.get(h).map_or(false, |c| {
                    c.deps.iter().any(|d1| held.contains(d1) && w.reg.get(d1).map_or(false, |c1| c1.deps.iter().any(|d2| held.contains(d2))))
                })
            });
            if chain {
                w.stats.bump("probe.held_chain_ge3");
            }
        }
        self.held_prev[r] = held;
        Ok(())
    }
}

impl Oracle for C05 {
    fn after(&mut self, w: &mut World, _ev: &Ev, out: &Outcome) -> Result<(), Violation> {
        match out {
            Outcome::Delivered { to, result, .. } => {
                if let Err(e) = result {
                    // honest changes, no actor reuse: delivery must not fail
                    return Err(violation(
                        "C05",
                        "delivery_succeeds",
                        &format!("delivery-error:{}", sig_of_detail(e)),
                        w.step,
                        format!("replica {to}: applying honest changes failed: {e}"),
                    ));
                }
                self.check(w, *to)
            }
            Outcome::Restarted { r, loaded, .. } => {
                let had_orphans = w.reps[*r].delivered.len() > w.reps[*r].known.len();
                if had_orphans {
                    w.stats.bump("probe.restart_with_orphans");
                } else if loaded.is_ok() {
                    w.stats.bump("probe.restart_dropped_orphans");
                }
                self.check(w, *r)
            }
            Outcome::Committed { r, .. } => self.check(w, *r),
            _ => Ok(()),
        }
    }

    fn finish(&mut self, w: &mut World) -> Result<(), Violation> {
        // final state independent of arrival order: deliver everything still missing, in a shuffled order
        let all: BTreeSet<Hash> = w.reg.order.iter().cloned().collect();
        let mut reference: Option<Tree> = None;
        for r in 0..w.n() {
            if w.reps[r].isolated.is_some() {
                continue;
            }
            w.commit_pending(r);
        }
        let all: BTreeSet<Hash> = if all.len() == w.reg.order.len() { all } else { w.reg.order.iter().cloned().collect() };
        let all: BTreeSet<Hash> = all.union(&w.reg.order.iter().cloned().collect()).cloned().collect();
        for r in 0..w.n() {
            if w.reps[r].isolated.is_some() {
                continue;
            }
            let mut rng = Rng::new(w.cfg.p1 as u64 ^ (r as u64 * 77));
            let mut missing: Vec<Hash> = all.iter().filter(|h| !w.reps[r].delivered.contains(*h)).cloned().collect();
            rng.shuffle(&mut missing);
            if rng.bool() {
                missing.reverse();
            }
            for h in missing {
                let ch = Change::from_bytes(w.reg.changes[&h].raw.clone()).unwrap();
                if let Err(e) = w.reps[r].doc.apply_changes(vec![ch]) {
                    return Err(violation("C05", "delivery_succeeds", &format!("delivery-error:{}", sig_of_detail(&format!("{e}"))), w.step, format!("replica {r}: {e}")));
                }
                w.reps[r].delivered.insert(h);
                w.harvest(r);
                self.check(w, r)?;
            }
            if w.reps[r].known != all {
                return Err(violation("C05", "all_released", "not-all-released", w.step, format!("replica {r}: after delivering every change {} of {} are applied", w.reps[r].known.len(), all.len())));
            }
            let t = observe_replica(w, r, "C05", "order_independent")?;
            match &reference {
                None => reference = Some(t),
                Some(t0) => {
                    if let Some(d) = tree_diff(t0, &t) {
                        return Err(violation("C05", "order_independent", &format!("state-differs:{}", sig_of_detail(&d)), w.step, format!("replica {r} differs after all changes arrived: {d}")));
                    }
                }
            }
        }
        Ok(())
    }

    fn nontrivial(&self, _w: &World) -> Option<u64> {
        if self.any_held {
            Some(self.seq.finish())
        } else {
            None
        }
    }
}
