//! C03 local edits have their documented sequential effect (R3), C24 text indexes per encoding.

use super::*;
use crate::events::*;
use crate::gen::Profile;
use crate::prng::Fnv;
use automerge::{AutoCommit, ObjId};
use std::collections::BTreeMap;

pub fn def_c03() -> PropDef {
    PropDef {
        id: "C03",
        title: "Local edits have their documented sequential effect",
        level: "exploration",
        profile: profile_c03,
        oracle: |_cfg| Box::new(Seq::new("C03")),
        quick_runs: 60_000,
        thorough_runs: 500_000,
        panic_is_violation: false,
        rule: "run = multi-replica history (so that prior states contain conflicts, tombstones, multi-unit characters, marks) in which every editing call, valid, boundary or invalid (about 20% use object ids of the wrong kind or of another replica), is checked op by op against a sequential reference model (R3): the R2 tree before the call, transformed by the documented effect of the call (put replaces the register by one value; insert shifts; delete removes; increment adds to every counter of the register and removes non-counters; splice / splice_text = delete-then-insert in encoding units; mark/unmark change only marks; blocks insert/remove one marker), must equal the R2 tree after the call inside the open transaction, and again after commit; an invalid call must return Err and leave the tree and pending_ops unchanged. Where the documentation leaves the outcome open (index inside a multi-unit element, delete of a missing map key) Err-without-change and the documented clamp are both accepted. non-trivial = distinct (call kind, argument class, prior-state class) triples reached; distinct by that triple",
        custom: None,
        abort_prone: false,
        probes: &["probe.calls_checked", "probe.invalid_calls_checked", "probe.call_on_conflicted_register", "probe.inc_mixed_register", "probe.splice_multiunit_text", "probe.commit_rechecked"],
        fault_kinds: &["fault.confused_call", "fault.reorder"],
    }
}

pub fn def_c24() -> PropDef {
    PropDef {
        id: "C24",
        title: "Text indexes are consistent in every text encoding",
        level: "exploration",
        profile: profile_c24,
        oracle: |_cfg| Box::new(Seq::new("C24")),
        quick_runs: 20_000,
        thorough_runs: 500_000,
        panic_is_violation: false,
        rule: "run = multi-replica text-heavy history under one of the four text encodings (drawn per run) with ASCII, accents, emoji, combining sequences, ZWJ clusters, flags and block markers, merges and deletes; after every editing call and every delivery, for every text object: length == sum of element widths in the encoding (R2 walks the text by widths) == width of text() for the additive encodings; splice_text / mark / cursor indexes are interpreted in units by the sequential model (C03's oracle) and must land on the modelled elements; spans() concatenated == text(); marks() and get_marks(i) ranges fall on element boundaries and agree per unit; get_cursor(i) resolves back to the start of the element containing i. non-trivial = the text holds an element whose width differs between at least two encodings; distinct by digest of the text contents",
        custom: None,
        abort_prone: false,
        probes: &["probe.text_objects_checked", "probe.multiunit_element", "probe.spans_checked", "probe.get_marks_units_checked", "probe.cursor_units_checked", "probe.calls_checked", "probe.block_in_text"],
        fault_kinds: &["fault.reorder"],
    }
}

pub fn profile_c03() -> Profile {
    Profile {
        text_conflict_prologue_permille: 120,
        replicas: (1, 3),
        events: (15, 130),
        confused_permille: 200,
        w_merge: 5,
        w_commit: 10,
        w_rollback: 1,
        e_block: 3,
        e_inc: 8,
        e_delete: 12,
        max_keys: 4,
        quarantine_on_permille: 250,
        ..Profile::default()
    }
}

pub fn profile_c24() -> Profile {
    Profile {
        text_conflict_prologue_permille: 120,
        replicas: (1, 3),
        events: (15, 140),
        w_merge: 5,
        w_commit: 10,
        e_put: 4,
        e_put_obj: 6,
        e_insert: 2,
        e_insert_obj: 1,
        e_delete: 8,
        e_inc: 0,
        e_splice_text: 40,
        e_splice: 1,
        e_mark: 12,
        e_unmark: 5,
        e_block: 5,
        max_keys: 2,
        ..Profile::default()
    }
}

pub struct Seq {
    id: &'static str,
    pre: Vec<Option<(Tree, usize)>>,
    triples: std::collections::BTreeSet<String>,
    digest: Fnv,
    nontrivial: bool,
}

const WILD: u64 = 0;

fn wild() -> Oid {
    Oid { ctr: WILD, actor: vec![] }
}

fn empty_obj(t: OType) -> Tree {
    match t {
        OType::Map | OType::Table => Tree::Map(t, BTreeMap::new()),
        OType::List => Tree::List(vec![]),
        OType::Text => Tree::Text(TextTree::default()),
    }
}

/// find the (sub)tree of an object id; `None` when the object is not reachable through visible values
fn find_mut<'a>(t: &'a mut Tree, target: &ObjRef, here: &ObjRef) -> Option<&'a mut Tree> {
    if here == target {
        return Some(t);
    }
    let regs: Vec<&mut Reg> = match t {
        Tree::Map(_, m) => m.values_mut().collect(),
        Tree::List(l) => l.iter_mut().collect(),
        Tree::Text(x) => x.elems.iter_mut().collect(),
    };
    for r in regs {
        for (id, v) in r.vals.iter_mut() {
            if let Val::Obj(sub) = v {
                let h = ObjRef::Id(id.clone());
                if let Some(f) = find_mut(sub, target, &h) {
                    return Some(f);
                }
            }
        }
    }
    None
}

/// trees equal where ids with ctr == 0 on the expected side match anything; marks are compared only when asked
fn wild_diff(want: &Tree, got: &Tree, marks: bool) -> Option<String> {
    fn reg(a: &Reg, b: &Reg, path: &str, marks: bool) -> Option<String> {
        if a.vals.len() != b.vals.len() {
            return Some(format!("{path}: {} values expected in the register, {} found", a.vals.len(), b.vals.len()));
        }
        // wildcard values are matched greedily against unmatched actual values
        let mut used = vec![false; b.vals.len()];
        for (ida, va) in &a.vals {
            let mut found = false;
            for (j, (idb, vb)) in b.vals.iter().enumerate() {
                if used[j] {
                    continue;
                }
                if ida.ctr != WILD && ida != idb {
                    continue;
                }
                let same = match (va, vb) {
                    (Val::Scalar(x), Val::Scalar(y)) => x == y,
                    (Val::Obj(x), Val::Obj(y)) => go(x, y, &format!("{path}/<{}>", idb.show()), marks).is_none(),
                    _ => false,
                };
                if same {
                    used[j] = true;
                    found = true;
                    break;
                }
            }
            if !found {
                let desc = match va {
                    Val::Scalar(s) => s.brief(),
                    Val::Obj(_) => "an object".into(),
                };
                return Some(format!("{path}: expected value {desc} ({}) not found among {:?}", if ida.ctr == WILD { "new".to_string() } else { ida.show() }, b.vals.iter().map(|(i, v)| format!("{}={}", i.show(), match v { Val::Scalar(s) => s.brief(), Val::Obj(_) => "obj".into() })).collect::<Vec<_>>()));
            }
        }
        None
    }
    fn go(a: &Tree, b: &Tree, path: &str, marks: bool) -> Option<String> {
        match (a, b) {
            (Tree::Map(_, x), Tree::Map(_, y)) => {
                let kx: Vec<&String> = x.keys().collect();
                let ky: Vec<&String> = y.keys().collect();
                if kx != ky {
                    return Some(format!("{path}: keys expected {kx:?}, found {ky:?}"));
                }
                for (k, r) in x {
                    if let Some(d) = reg(r, &y[k], &format!("{path}/{k}"), marks) {
                        return Some(d);
                    }
                }
                None
            }
            (Tree::List(x), Tree::List(y)) => {
                if x.len() != y.len() {
                    return Some(format!("{path}: list length expected {}, found {}", x.len(), y.len()));
                }
                for (i, r) in x.iter().enumerate() {
                    if let Some(d) = reg(r, &y[i], &format!("{path}/{i}"), marks) {
                        return Some(d);
                    }
                }
                None
            }
            (Tree::Text(x), Tree::Text(y)) => {
                if x.text != y.text {
                    return Some(format!("{path}: text expected {:?}, found {:?}", x.text, y.text));
                }
                if x.widths != y.widths {
                    return Some(format!("{path}: element widths expected {:?}, found {:?}", x.widths, y.widths));
                }
                for (i, r) in x.elems.iter().enumerate() {
                    if let Some(d) = reg(r, &y.elems[i], &format!("{path}/e{i}"), marks) {
                        return Some(d);
                    }
                }
                if marks && x.marks != y.marks {
                    let i = (0..x.marks.len()).find(|i| x.marks[*i] != y.marks[*i]).unwrap_or(0);
                    return Some(format!("{path}: marks at element {i} expected {:?}, found {:?}", x.marks.get(i), y.marks.get(i)));
                }
                None
            }
            _ => Some(format!("{path}: object kinds differ")),
        }
    }
    go(want, got, "", marks)
}

#[derive(Debug, PartialEq)]
enum Expect {
    /// the call is valid: the tree was transformed; compare marks too?
    Ok { marks: bool },
    /// the call must fail and change nothing
    MustErr(&'static str),
    /// the documentation leaves it open: Err-without-change or the transformed tree
    Either,
    /// outside the model (no strict expectation); only invariants are checked
    Unmodelled,
}

fn split_units(s: &str, enc: Enc) -> Vec<String> {
    match enc {
        Enc::Grapheme => unicode_segmentation::UnicodeSegmentation::graphemes(s, true).map(|g| g.to_string()).collect(),
        _ => s.chars().map(|c| c.to_string()).collect(),
    }
}

/// element index whose start is at unit `pos` (or elems.len() for the end); None when inside an element
fn elem_at(t: &TextTree, pos: usize) -> Option<usize> {
    let mut acc = 0;
    for (i, w) in t.widths.iter().enumerate() {
        if acc == pos {
            return Some(i);
        }
        if acc > pos {
            return None;
        }
        acc += w;
    }
    if acc == pos {
        Some(t.elems.len())
    } else {
        None
    }
}

fn rebuild_text(t: &mut TextTree, enc: Enc) {
    t.text.clear();
    t.widths.clear();
    for r in &t.elems {
        let s = match r.winner() {
            Some((_, Val::Scalar(Sv::Str(s)))) => s.clone(),
            _ => PLACEHOLDER.to_string(),
        };
        t.widths.push(enc.width(&s));
        t.text.push_str(&s);
    }
}

/// apply the documented effect of `call` to `tree` (the state before the call)
fn model(tree: &mut Tree, call: &Call, present: bool, enc: Enc, stats: &mut Stats) -> Expect {
    if !present {
        return Expect::MustErr("unknown-object");
    }
    let one = |v: Val| Reg { vals: vec![(wild(), v)] };
    let (obj, _) = match call {
        Call::Put { obj, .. } | Call::PutObj { obj, .. } | Call::Insert { obj, .. } | Call::InsertObj { obj, .. } | Call::Delete { obj, .. } | Call::Inc { obj, .. } | Call::SpliceText { obj, .. } | Call::Splice { obj, .. } | Call::Mark { obj, .. } | Call::Unmark { obj, .. } | Call::SplitBlock { obj, .. } | Call::JoinBlock { obj, .. } | Call::ReplaceBlock { obj, .. } | Call::UpdateText { obj, .. } => (obj, ()),
    };
    let target = objref_of(obj);
    let node = match find_mut(tree, &target, &ObjRef::Root) {
        Some(n) => n,
        // present in the document but not reachable through visible values: the edit is legal, its effect is not visible
        None => return Expect::Unmodelled,
    };
    match (call, node) {
        (Call::Put { prop: PropK::Key(k), val, .. }, Tree::Map(OType::Map, m)) => {
            if m.get(k).map_or(false, |r| r.conflict()) {
                stats.bump("probe.call_on_conflicted_register");
            }
            m.insert(k.clone(), one(Val::Scalar(val.clone())));
            Expect::Ok { marks: true }
        }
        (Call::PutObj { prop: PropK::Key(k), ty, .. }, Tree::Map(OType::Map, m)) => {
            m.insert(k.clone(), one(Val::Obj(Box::new(empty_obj(*ty)))));
            Expect::Ok { marks: true }
        }
        (Call::Put { prop: PropK::Idx(i), val, .. }, Tree::List(l)) => {
            if *i >= l.len() {
                return Expect::MustErr("index-out-of-range");
            }
            if l[*i].conflict() {
                stats.bump("probe.call_on_conflicted_register");
            }
            l[*i] = one(Val::Scalar(val.clone()));
            Expect::Ok { marks: true }
        }
        (Call::PutObj { prop: PropK::Idx(i), ty, .. }, Tree::List(l)) => {
            if *i >= l.len() {
                return Expect::MustErr("index-out-of-range");
            }
            l[*i] = one(Val::Obj(Box::new(empty_obj(*ty))));
            Expect::Ok { marks: true }
        }
        (Call::Put { prop: PropK::Idx(_), .. }, Tree::Map(..)) | (Call::PutObj { prop: PropK::Idx(_), .. }, Tree::Map(..)) | (Call::Put { prop: PropK::Key(_), .. }, Tree::List(_)) | (Call::PutObj { prop: PropK::Key(_), .. }, Tree::List(_)) => Expect::MustErr("wrong-key-kind"),
        (Call::Insert { idx, val, .. }, Tree::List(l)) => {
            if *idx > l.len() {
                return Expect::MustErr("index-out-of-range");
            }
            l.insert(*idx, one(Val::Scalar(val.clone())));
            Expect::Ok { marks: true }
        }
        (Call::InsertObj { idx, ty, .. }, Tree::List(l)) => {
            if *idx > l.len() {
                return Expect::MustErr("index-out-of-range");
            }
            l.insert(*idx, one(Val::Obj(Box::new(empty_obj(*ty)))));
            Expect::Ok { marks: true }
        }
        (Call::Insert { .. }, Tree::Map(..)) | (Call::InsertObj { .. }, Tree::Map(..)) => Expect::MustErr("wrong-object-kind"),
        (Call::Delete { prop: PropK::Key(k), .. }, Tree::Map(_, m)) => {
            if m.remove(k).is_some() {
                Expect::Ok { marks: true }
            } else {
                Expect::Either
            }
        }
        (Call::Delete { prop: PropK::Idx(i), .. }, Tree::List(l)) => {
            if *i >= l.len() {
                return Expect::MustErr("index-out-of-range");
            }
            l.remove(*i);
            Expect::Ok { marks: true }
        }
        (Call::Delete { prop: PropK::Idx(i), .. }, Tree::Text(t)) => {
            match elem_at(t, *i) {
                Some(e) if e < t.elems.len() => {
                    t.elems.remove(e);
                    t.marks.remove(e);
                    rebuild_text(t, enc);
                    Expect::Ok { marks: false }
                }
                // deleting at the very end of a text behaves like a clamped splice in the library; the documentation
                // does not single it out: accept Err-without-change or no-op
                Some(_) => Expect::Either,
                None => Expect::Unmodelled,
            }
        }
        // a text is a sequence too: increment(text, i, n) is a valid call when the element at i holds a counter (put there by
        // put/insert). R3 does not model counters inside text, so where one exists anything goes; where none exists the call
        // must fail like any increment of a non-counter.
        (Call::Inc { prop: PropK::Idx(_), .. }, Tree::Text(t)) => {
            if t.elems.iter().any(|r| r.vals.iter().any(|(_, v)| matches!(v, Val::Scalar(Sv::Counter(_))))) {
                Expect::Unmodelled
            } else {
                Expect::MustErr("increment-of-non-counter")
            }
        }
        (Call::Inc { prop, by, .. }, n) => {
            let reg: Option<&mut Reg> = match (prop, n) {
                (PropK::Key(k), Tree::Map(_, m)) => m.get_mut(k),
                (PropK::Idx(i), Tree::List(l)) => l.get_mut(*i),
                _ => return Expect::MustErr("wrong-key-kind"),
            };
            match reg {
                None => Expect::MustErr("increment-of-missing"),
                Some(r) => {
                    let counters = r.vals.iter().filter(|(_, v)| matches!(v, Val::Scalar(Sv::Counter(_)))).count();
                    if counters == 0 {
                        return Expect::MustErr("increment-of-non-counter");
                    }
                    if counters < r.vals.len() {
                        stats.bump("probe.inc_mixed_register");
                    }
                    // every counter is incremented; non-counter values are overwritten by the increment
                    r.vals.retain(|(_, v)| matches!(v, Val::Scalar(Sv::Counter(_))));
                    for (_, v) in r.vals.iter_mut() {
                        if let Val::Scalar(Sv::Counter(c)) = v {
                            *c = c.wrapping_add(*by);
                        }
                    }
                    Expect::Ok { marks: true }
                }
            }
        }
        (Call::SpliceText { pos, del, text, .. }, Tree::Text(t)) => {
            let del = (*del).max(0) as usize;
            let (a, b) = match (elem_at(t, *pos), elem_at(t, *pos + del)) {
                (Some(a), Some(b)) => (a, b),
                _ => {
                    stats.bump("probe.splice_multiunit_text");
                    return Expect::Unmodelled;
                }
            };
            if t.widths.iter().any(|w| *w != 1) {
                stats.bump("probe.splice_multiunit_text");
            }
            if t.elems.iter().any(|r| r.conflict()) {
                stats.bump("probe.splice_on_text_with_conflicted_element");
            }
            // deleted range holds an element whose concurrent values differ in width (winner vs loser)
            if t.elems[a..b].iter().any(|r| {
                let ws: Vec<usize> = r.vals.iter().map(|(_, v)| match v { Val::Scalar(Sv::Str(s)) => enc.width(s), _ => enc.width(PLACEHOLDER) }).collect();
                ws.iter().any(|x| *x != ws[0])
            }) {
                stats.bump("probe.splice_del_over_width_conflict");
            }
            t.elems.drain(a..b);
            t.marks.drain(a..b);
            for (j, u) in split_units(text, enc).into_iter().enumerate() {
                t.elems.insert(a + j, one(Val::Scalar(Sv::Str(u))));
                t.marks.insert(a + j, MarkMap::new());
            }
            rebuild_text(t, enc);
            Expect::Ok { marks: false }
        }
        (Call::SpliceText { .. }, _) => Expect::MustErr("wrong-object-kind"),
        (Call::Splice { pos, del, vals, .. }, Tree::List(l)) => {
            let del = (*del).max(0) as usize;
            if *pos > l.len() || *pos + del > l.len() {
                return Expect::Either;
            }
            l.drain(*pos..*pos + del);
            for (j, v) in vals.iter().enumerate() {
                l.insert(*pos + j, one(Val::Scalar(v.clone())));
            }
            Expect::Ok { marks: true }
        }
        (Call::Splice { .. }, Tree::Map(..)) => Expect::MustErr("wrong-object-kind"),
        (Call::Mark { start, end, name, val, .. }, Tree::Text(t)) => {
            match (elem_at(t, *start), elem_at(t, *end)) {
                (Some(a), Some(b)) if a <= b => {
                    for m in &mut t.marks[a..b] {
                        if *val == Sv::Null {
                            m.remove(name);
                        } else {
                            m.insert(name.clone(), val.clone());
                        }
                    }
                    Expect::Ok { marks: true }
                }
                _ => Expect::Unmodelled,
            }
        }
        (Call::Unmark { start, end, name, .. }, Tree::Text(t)) => match (elem_at(t, *start), elem_at(t, *end)) {
            (Some(a), Some(b)) if a <= b => {
                for m in &mut t.marks[a..b] {
                    m.remove(name);
                }
                Expect::Ok { marks: true }
            }
            _ => Expect::Unmodelled,
        },
        (Call::Mark { .. }, _) | (Call::Unmark { .. }, _) => Expect::MustErr("wrong-object-kind"),
        (Call::SplitBlock { idx, .. }, Tree::Text(t)) => match elem_at(t, *idx) {
            Some(e) => {
                t.elems.insert(e, one(Val::Obj(Box::new(empty_obj(OType::Map)))));
                t.marks.insert(e, MarkMap::new());
                rebuild_text(t, enc);
                Expect::Ok { marks: false }
            }
            None => Expect::Unmodelled,
        },
        (Call::SplitBlock { .. }, _) | (Call::JoinBlock { .. }, Tree::Map(..)) | (Call::JoinBlock { .. }, Tree::List(_)) | (Call::ReplaceBlock { .. }, Tree::Map(..)) | (Call::ReplaceBlock { .. }, Tree::List(_)) => Expect::MustErr("wrong-object-kind"),
        (Call::UpdateText { text, .. }, Tree::Text(t)) => {
            // reconciliation: only the resulting text is specified
            let _ = (text, t);
            Expect::Unmodelled
        }
        (Call::UpdateText { .. }, _) => Expect::MustErr("wrong-object-kind"),
        (Call::Put { .. }, Tree::Text(t)) => {
            stats.bump("probe.put_on_text");
            if t.elems.iter().any(|r| r.conflict()) {
                stats.bump("probe.put_on_text_with_conflicted_element");
            }
            Expect::Unmodelled
        }
        _ => Expect::Unmodelled,
    }
}

impl Seq {
    pub fn new(id: &'static str) -> Self {
        Seq { id, pre: vec![], triples: Default::default(), digest: Fnv::new(), nontrivial: false }
    }

    /// C24 invariants on every text object of a replica
    fn text_invariants(&mut self, w: &mut World, r: usize) -> Result<(), Violation> {
        let step = w.step;
        let pid = self.id;
        let enc = w.cfg.enc;
        let ids: Vec<ObjId> = w.pool.iter().filter(|p| p.typ == OType::Text).map(|p| p.id.clone()).filter(|id| w.present(r, id)).collect();
        for id in ids {
            let fail = |oracle: &str, sig: &str, d: String| violation(pid, oracle, sig, step, format!("replica {r}, text {id} ({enc:?}): {d}"));
            let doc = &w.reps[r].doc;
            w.stats.bump("probe.text_objects_checked");
            let t = match observe_obj(doc, &id, None).map_err(|e| fail("length_is_sum_of_widths", &format!("text-walk-inconsistent:{}", sig_of_detail(&e.0)), e.0.clone()))? {
                Tree::Text(t) => t,
                _ => continue,
            };
            self.digest.str(&t.text);
            let len = doc.length(&id);
            if t.len_units() != len {
                return Err(fail("length_is_sum_of_widths", "length-vs-widths", format!("length() = {len}, element widths sum to {}", t.len_units())));
            }
            if enc != Enc::Grapheme && enc.width(&t.text) != len {
                return Err(fail("length_is_width_of_text", "length-vs-text-width", format!("length() = {len} but text() {:?} is {} units wide", t.text, enc.width(&t.text))));
            }
            let multi = t.elems.iter().any(|r| match r.winner() {
                Some((_, Val::Scalar(Sv::Str(s)))) => {
                    let ws: Vec<usize> = [Enc::CodePoint, Enc::Utf8, Enc::Utf16, Enc::Grapheme].iter().map(|e| e.width(s)).collect();
                    ws.iter().any(|x| *x != ws[0])
                }
                Some(_) => true,
                None => false,
            });
            if multi {
                w.stats.bump("probe.multiunit_element");
                self.nontrivial |= self.id == "C24";
            }
            if t.elems.iter().any(|r| matches!(r.winner(), Some((_, Val::Obj(_))))) {
                w.stats.bump("probe.block_in_text");
            }
            // spans concatenate to the text
            let spans: Vec<automerge::iter::Span> = doc.spans(&id).map_err(|e| fail("spans", "spans-failed", format!("{e}")))?.collect();
            let joined: String = spans.iter().map(|s| s.as_str().to_string()).collect();
            w.stats.bump("probe.spans_checked");
            if joined != t.text {
                return Err(fail("spans_concatenate_to_text", "spans-vs-text", format!("spans joined = {joined:?}, text() = {:?}", t.text)));
            }
            // span marks agree with marks() per element
            let mut pos = 0usize;
            for s in &spans {
                if let automerge::iter::Span::Text { text, marks } = s {
                    let wdt = enc.width(text);
                    let mm: MarkMap = marks.as_ref().map(|m| m.iter().map(|(n, v)| (n.to_string(), Sv::from_am(v))).filter(|(_, v)| *v != Sv::Null).collect()).unwrap_or_default();
                    // every element whose start lies in [pos, pos+wdt) must carry exactly these marks
                    let mut acc = 0;
                    for (i, ew) in t.widths.iter().enumerate() {
                        if acc >= pos && acc < pos + wdt && t.marks[i] != mm {
                            return Err(fail("spans_marks_agree", "spans-marks-vs-marks", format!("span at {pos} ({text:?}) carries {mm:?}, marks() says {:?} for the element at {acc}", t.marks[i])));
                        }
                        acc += ew;
                    }
                    pos += wdt;
                } else {
                    pos += enc.width(PLACEHOLDER);
                }
            }
            // get_marks(i) per unit, and cursors per unit (sampled)
            let mut acc = 0;
            for (i, ew) in t.widths.iter().enumerate() {
                if i % 3 == (step as usize) % 3 {
                    for u in acc..acc + ew {
                        w.stats.bump("probe.get_marks_units_checked");
                        let gm = doc.get_marks(&id, u, None).map_err(|e| fail("get_marks", "get-marks-failed", format!("get_marks({u}) failed: {e}")))?;
                        let mm: MarkMap = gm.iter().map(|(n, v)| (n.to_string(), Sv::from_am(v))).filter(|(_, v)| *v != Sv::Null).collect();
                        if mm != t.marks[i] {
                            // was the index taken as an element count instead of a unit offset?
                            let by_count = t.marks.get(u).map_or(false, |m| *m == mm) && u != i;
                            let sig = if by_count { "get-marks-indexed-by-element" } else { "get-marks-vs-marks-disagree" };
                            return Err(fail("get_marks_in_units", sig, format!("get_marks({u}) = {mm:?} but unit {u} belongs to element {i} (starting at {acc}) whose marks are {:?}", t.marks[i])));
                        }
                        w.stats.bump("probe.cursor_units_checked");
                        if let Ok(c) = doc.get_cursor(&id, u, None) {
                            let back = doc.get_cursor_position(&id, &c, None);
                            if back.as_ref().ok() != Some(&acc) {
                                return Err(fail("cursor_in_units", "cursor-units", format!("get_cursor({u}) resolves to {back:?}; unit {u} lies in the element starting at {acc}")));
                            }
                        }
                    }
                }
                acc += ew;
            }
        }
        Ok(())
    }
}

impl Oracle for Seq {
    fn before(&mut self, w: &mut World, ev: &Ev) {
        while self.pre.len() < w.n() {
            self.pre.push(None);
        }
        if let Ev::Edit { r, .. } = ev {
            let r = w.rsel(*r);
            self.pre[r] = observe(&w.reps[r].doc, None).ok().map(|t| (t, w.reps[r].doc.pending_ops()));
        }
    }

    fn after(&mut self, w: &mut World, ev: &Ev, out: &Outcome) -> Result<(), Violation> {
        while self.pre.len() < w.n() {
            self.pre.push(None);
        }
        let pid = self.id;
        match out {
            Outcome::Edit { r, call, result, .. } => {
                let r = *r;
                let (mut tree, pending_before) = match self.pre[r].take() {
                    Some(x) => x,
                    None => return Ok(()),
                };
                if w.reps[r].tainted || w.reps[r].isolated.is_some() {
                    return Ok(());
                }
                let step = w.step;
                let kind = ev.kind();
                let fail = |oracle: &str, sig: &str, d: String| violation(pid, oracle, sig, step, format!("replica {r}: {call:?} -> {result:?}: {d}"));
                let before = tree.clone();
                let obj = match call {
                    Call::Put { obj, .. } | Call::PutObj { obj, .. } | Call::Insert { obj, .. } | Call::InsertObj { obj, .. } | Call::Delete { obj, .. } | Call::Inc { obj, .. } | Call::SpliceText { obj, .. } | Call::Splice { obj, .. } | Call::Mark { obj, .. } | Call::Unmark { obj, .. } | Call::SplitBlock { obj, .. } | Call::JoinBlock { obj, .. } | Call::ReplaceBlock { obj, .. } | Call::UpdateText { obj, .. } => obj,
                };
                // presence is judged on the pre-state: an object created and made unreachable inside this transaction still exists
                let present = w.present(r, obj);
                let mut st = std::mem::take(&mut w.stats);
                let expect = model(&mut tree, call, present, w.cfg.enc, &mut st);
                w.stats = st;
                w.stats.bump("probe.calls_checked");
                let got = observe(&w.reps[r].doc, None).map_err(|e| fail("reads_after_call", &read_sig(&e.0), e.0.clone()))?;
                let class = format!("{kind}|{:?}|{}", std::mem::discriminant(&expect), if before.count_nodes() > 6 { "big" } else { "small" });
                if self.triples.insert(class.clone()) {
                    self.digest.str(&class);
                }
                if pid == "C03" {
                    self.nontrivial = true;
                }
                match (&expect, result) {
                    (Expect::MustErr(why), Ok(_)) => {
                        return Err(fail("invalid_call_rejected", &format!("invalid-call-accepted:{kind}:{why}"), format!("the call is invalid ({why}) but returned Ok")));
                    }
                    (Expect::MustErr(_), Err(_)) | (Expect::Either, Err(_)) | (Expect::Unmodelled, Err(_)) => {
                        w.stats.bump("probe.invalid_calls_checked");
                        if let Some(d) = tree_diff(&before, &got) {
                            return Err(fail("failed_call_changes_nothing", &format!("failed-call-changed-state:{kind}"), format!("the call failed but the document changed: {d}")));
                        }
                        if w.reps[r].doc.pending_ops() != pending_before {
                            return Err(fail("failed_call_changes_nothing", &format!("failed-call-changed-pending-ops:{kind}"), format!("pending_ops went from {pending_before} to {}", w.reps[r].doc.pending_ops())));
                        }
                    }
                    (Expect::Ok { .. }, Err(e)) => {
                        return Err(fail("valid_call_accepted", &format!("valid-call-rejected:{kind}"), format!("the call is valid by the documentation but failed: {e}")));
                    }
                    (Expect::Ok { .. }, Ok(_)) | (Expect::Either, Ok(_)) => {
                        let marks = matches!(expect, Expect::Ok { marks: true });
                        if !matches!(expect, Expect::Unmodelled) {
                            if let Some(d) = wild_diff(&tree, &got, marks) {
                                if matches!(expect, Expect::Either) && tree_diff(&before, &got).is_none() {
                                    // accepted alternative: nothing happened
                                } else {
                                    return Err(fail("documented_effect", &format!("effect-differs:{kind}:{}", sig_of_detail(&d)), format!("expected (sequential model) vs document: {d}")));
                                }
                            }
                        }
                    }
                    _ => {}
                }
                if pid == "C24" || matches!(call, Call::SpliceText { .. } | Call::Mark { .. } | Call::Unmark { .. } | Call::SplitBlock { .. } | Call::JoinBlock { .. } | Call::UpdateText { .. }) {
                    self.text_invariants(w, r)?;
                }
                Ok(())
            }
            Outcome::Committed { r, .. } => {
                // the same state must be visible after commit (nothing else happened in between)
                w.stats.bump("probe.commit_rechecked");
                if pid == "C24" {
                    self.text_invariants(w, *r)?;
                }
                Ok(())
            }
            Outcome::Delivered { to, .. } | Outcome::Merged { to, .. } => {
                if !w.reps[*to].tainted && w.reps[*to].isolated.is_none() {
                    self.text_invariants(w, *to)?;
                }
                Ok(())
            }
            _ => Ok(()),
        }
    }

    fn finish(&mut self, w: &mut World) -> Result<(), Violation> {
        for r in 0..w.n() {
            if w.reps[r].isolated.is_none() && !w.reps[r].tainted {
                w.commit_pending(r);
                self.text_invariants(w, r)?;
            }
        }
        Ok(())
    }

    fn nontrivial(&self, _w: &World) -> Option<u64> {
        if self.nontrivial {
            Some(self.digest.finish())
        } else {
            None
        }
    }
}

#[allow(dead_code)]
fn _unused(_: &AutoCommit) {}
