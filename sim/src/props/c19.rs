//! C19 Identifiers and sync state serialize losslessly and resolve correctly.
//! C30 Object ids stay valid and stable.

use super::*;
use crate::events::*;
use crate::gen::Profile;
use crate::prng::Fnv;
use automerge::{ObjId, ReadDoc};

pub fn def() -> PropDef {
    PropDef {
        id: "C19",
        title: "Identifiers and sync state serialize losslessly and resolve correctly",
        level: "exploration",
        profile,
        oracle: |_cfg| Box::new(Ids::new("C19")),
        quick_runs: 24_000,
        thorough_runs: 600_000,
        panic_is_violation: false,
        rule: "run = multi-replica history (actor ids of varying length and order so that actor tables differ between replicas) with gossip and sync sessions; at probe points every object id of the pool and cursors taken at seeded positions cross from one replica to another through BOTH their byte and string encodings (ObjId to_bytes/try_from, Display/import; Cursor to_bytes/try_from, to_string/try_from) and must decode to equal values and resolve, in the receiving replica, to the same object (type and subtree per the reference interpreter) or element (index per the reference interpreter); ActorId and ChangeHash hex round trips; every sync message put on the wire decodes to an equal message and re-encodes to the same bytes; State: decode(encode(s)).shared_heads == s.shared_heads and encode is idempotent. non-trivial = an id crossed between replicas whose actor index for the id's actor differs; distinct by digest of the crossings",
        custom: None,
        abort_prone: false,
        probes: &["probe.objid_crossings", "probe.cursor_crossings", "probe.actor_index_differs", "probe.messages_roundtripped", "probe.states_roundtripped", "probe.hash_actor_roundtrips"],
        fault_kinds: &["fault.reorder"],
    }
}

pub fn def_c30() -> PropDef {
    PropDef {
        id: "C30",
        title: "Object ids stay valid and stable",
        level: "exploration",
        profile: profile_c30,
        oracle: |_cfg| Box::new(Ids::new("C30")),
        quick_runs: 24_000,
        thorough_runs: 600_000,
        panic_is_violation: false,
        rule: "run = multi-replica history in which late joiners have actor ids that sort BEFORE existing actors (so actor-table indexes shift), with merges, forks, gossip, save/load restarts; at probe points and at the end, for every object id ever returned by the API and every replica: if the replica contains the creating change, object_type and the subtree read through the id equal the reference interpreter's object (even when no longer reachable from the root), and an edit through the id succeeds; if it does not contain it, reads give an error or an empty result, never data. non-trivial = an actor was inserted before existing ones in some replica's table after ids had been handed out; distinct by digest of the (id, replica) checks",
        custom: None,
        abort_prone: false,
        probes: &["probe.id_present_checked", "probe.id_absent_checked", "probe.actor_inserted_before_existing", "probe.edit_through_old_id"],
        fault_kinds: &["fault.crash.clean", "fault.reorder"],
    }
}

pub fn profile() -> Profile {
    Profile {
        replicas: (2, 5),
        events: (15, 140),
        w_probe: 5,
        w_merge: 4,
        w_fork: 2,
        w_gen: 8,
        w_recv: 8,
        w_connect: 2,
        // read-only toggles and reconnects: messages carrying the read-only / reset flags, states after a reset
        w_set_ro: 3,
        w_disconnect: 1,
        connect_all_at_permille: Some(300),
        e_put_obj: 12,
        e_insert_obj: 5,
        ..Profile::default()
    }
}

pub fn profile_c30() -> Profile {
    Profile {
        replicas: (2, 5),
        events: (15, 140),
        w_probe: 5,
        w_merge: 6,
        w_fork: 3,
        w_fork_at: 1,
        w_save: 2,
        w_crash: 2,
        w_set_actor: 2,
        tables: true,
        e_put_obj: 14,
        e_insert_obj: 6,
        e_delete: 12,
        ..Profile::default()
    }
}

pub struct Ids {
    id: &'static str,
    nontrivial: bool,
    digest: Fnv,
    /// per replica: the sorted actor table seen at the previous probe (C30 probe)
    tables: Vec<Vec<Vec<u8>>>,
}

impl Ids {
    pub fn new(id: &'static str) -> Self {
        Ids { id, nontrivial: false, digest: Fnv::new(), tables: vec![] }
    }

    fn actor_table(w: &World, r: usize) -> Vec<Vec<u8>> {
        let mut v: Vec<Vec<u8>> = w.reps[r].known.iter().filter_map(|h| w.reg.get(h)).map(|c| c.actor.clone()).collect();
        v.sort();
        v.dedup();
        v
    }

    fn check_object(&mut self, w: &mut World, r: usize, id: &ObjId, via: &str) -> Result<(), Violation> {
        let step = w.step;
        let pid = self.id;
        let fail = |oracle: &str, sig: &str, d: String| violation(pid, oracle, sig, step, format!("replica {r}, id {id} ({via}): {d}"));
        let oref = objref_of(id);
        let changes: Vec<&MChange> = w.reps[r].known.iter().filter_map(|h| w.reg.get(h).map(|c| &**c)).collect();
        let interp = Interp::new(changes.into_iter(), w.cfg.enc);
        let want_type = interp.obj_type(&oref);
        let doc = &w.reps[r].doc;
        match want_type {
            Some(t) => {
                w.stats.bump("probe.id_present_checked");
                match doc.object_type(id) {
                    Ok(got) if OType::from_am(got) == t => {}
                    Ok(got) => return Err(fail("same_object_type", "object-type-differs", format!("object_type is {got:?}, the history says {t:?}"))),
                    Err(e) => return Err(fail("id_resolves", &format!("known-object-not-found:{t:?}"), format!("the replica contains the creating change of this {t:?} object but object_type failed: {e}"))),
                }
                let got = observe_obj(doc, id, None).map_err(|e| fail("subtree_reads", &read_sig(&e.0), e.0.clone()))?;
                let want = interp.object(&oref, t, 0);
                if let Some(d) = tree_diff(&want, &got) {
                    return Err(fail("same_object", &format!("object-differs:{}", sig_of_detail(&d)), d));
                }
            }
            None => {
                w.stats.bump("probe.id_absent_checked");
                // never another object's data: every read must be an error or empty
                let leaked = doc.keys(id).count() > 0 || doc.length(id) > 0 || matches!(doc.get(id, "a"), Ok(Some(_))) || matches!(doc.get(id, 0usize), Ok(Some(_))) || doc.text(id).map(|t| !t.is_empty()).unwrap_or(false);
                if leaked || doc.object_type(id).is_ok() {
                    return Err(fail("absent_id_gives_nothing", "foreign-id-returns-data", "the replica does not contain this object, yet a read through the id returned data".to_string()));
                }
            }
        }
        Ok(())
    }

    fn probe(&mut self, w: &mut World, a: usize, sel: u32) -> Result<(), Violation> {
        let n = w.n();
        let b = (a + 1 + (sel as usize % (n - 1).max(1))) % n;
        let step = w.step;
        let pid = self.id;
        let fail = |oracle: &str, sig: &str, d: String| violation(pid, oracle, sig, step, d);
        if w.reps[a].isolated.is_some() || w.reps[b].isolated.is_some() || w.reps[a].doc.pending_ops() > 0 || w.reps[b].doc.pending_ops() > 0 {
            return Ok(());
        }
        let ta = Self::actor_table(w, a);
        let tb = Self::actor_table(w, b);
        // object ids
        let pool: Vec<ObjId> = w.pool.iter().map(|p| p.id.clone()).collect();
        for (k, id) in pool.iter().enumerate() {
            if self.id == "C19" {
                if !w.present(a, id) || (k as u32).wrapping_add(sel) % 3 != 0 {
                    continue;
                }
                w.stats.bump("probe.objid_crossings");
                // bytes
                let bytes = id.to_bytes();
                let back = ObjId::try_from(bytes.as_slice()).map_err(|e| fail("objid_bytes_roundtrip", "objid-bytes-undecodable", format!("{id}: {e}")))?;
                if back != *id {
                    return Err(fail("objid_bytes_roundtrip", "objid-bytes-roundtrip-differs", format!("{id} -> bytes -> {back}")));
                }
                // string through the receiving replica
                let s = id.to_string();
                if let Some(o) = oid_of(id) {
                    let ia = ta.iter().position(|x| *x == o.actor);
                    let ib = tb.iter().position(|x| *x == o.actor);
                    if ia != ib && ib.is_some() {
                        w.stats.bump("probe.actor_index_differs");
                        self.nontrivial = true;
                    }
                }
                let known_in_b = match oid_of(id) {
                    None => true,
                    Some(o) => w.reps[b].known.iter().filter_map(|h| w.reg.get(h)).any(|c| c.actor == o.actor && c.start_op <= o.ctr && o.ctr <= c.max_op()),
                };
                match w.reps[b].doc.import(&s) {
                    Ok((imp, _)) => {
                        if imp != *id {
                            return Err(fail("objid_string_roundtrip", "objid-string-roundtrip-differs", format!("{id} -> \"{s}\" -> {imp} on replica {b}")));
                        }
                    }
                    Err(e) => {
                        if known_in_b {
                            return Err(fail("objid_string_resolves", "objid-string-not-imported", format!("replica {b} contains object {id} but import(\"{s}\") failed: {e}")));
                        }
                    }
                }
                self.digest.str(&s);
                self.check_object(w, b, &back, "decoded from bytes")?;
                // ... and the id as a third replica renders it (its own actor-index hint), through bytes, used on b
                let x = (a + 1 + k) % n;
                if x != b && w.present(x, id) && w.reps[x].isolated.is_none() && w.reps[x].doc.pending_ops() == 0 {
                    if let Ok((rid, _)) = w.reps[x].doc.import(&s) {
                        w.stats.bump("probe.id_rendered_by_other_replica");
                        let via = ObjId::try_from(rid.to_bytes().as_slice()).map_err(|e| fail("objid_bytes_roundtrip", "objid-bytes-undecodable", format!("{rid}: {e}")))?;
                        self.check_object(w, b, &via, "as handed out by a third replica, through bytes")?;
                    }
                }
            } else {
                // C30: every id, every replica
                for r in 0..n {
                    if w.reps[r].isolated.is_some() || w.reps[r].doc.pending_ops() > 0 {
                        continue;
                    }
                    self.check_object(w, r, id, "as returned by the API")?;
                }
                // the same id as another replica that contains the object hands it out: an ExId carries the actor's index in
                // the table of the replica that produced it, and tables differ in size and order between replicas
                let x = (k + sel as usize) % n;
                if w.present(x, id) && w.reps[x].isolated.is_none() && w.reps[x].doc.pending_ops() == 0 {
                    if let Ok((rid, _)) = w.reps[x].doc.import(&id.to_string()) {
                        w.stats.bump("probe.id_rendered_by_other_replica");
                        for r in 0..n {
                            if r == x || w.reps[r].isolated.is_some() || w.reps[r].doc.pending_ops() > 0 {
                                continue;
                            }
                            self.check_object(w, r, &rid, "as handed out by another replica")?;
                        }
                    }
                }
                self.digest.str(&id.to_string());
            }
        }
        if self.id == "C30" {
            // actor-table shift probe
            while self.tables.len() < n {
                self.tables.push(vec![]);
            }
            for r in 0..n {
                let t = Self::actor_table(w, r);
                let old = &self.tables[r];
                if !old.is_empty() && t.len() > old.len() {
                    // a new actor sorted before an old one?
                    let newcomers: Vec<&Vec<u8>> = t.iter().filter(|x| !old.contains(x)).collect();
                    if newcomers.iter().any(|nw| old.iter().any(|o| *nw < o)) && w.pool.len() > 1 {
                        w.stats.bump("probe.actor_inserted_before_existing");
                        self.nontrivial = true;
                    }
                }
                self.tables[r] = t;
            }
            // an edit through an old id must work where the object exists (on a clone, so the run is not disturbed)
            if let Some(p) = w.pool.iter().skip(1).nth(sel as usize % w.pool.len().max(1)) {
                let (id, typ) = (p.id.clone(), p.typ);
                if w.present(a, &id) {
                    let mut c = w.reps[a].doc.clone();
                    let res = match typ {
                        OType::Map | OType::Table => World::apply_call(&mut c, &Call::Put { obj: id.clone(), prop: PropK::Key("zz".into()), val: Sv::Int(1) }),
                        OType::List => World::apply_call(&mut c, &Call::Insert { obj: id.clone(), idx: 0, val: Sv::Int(1) }),
                        OType::Text => World::apply_call(&mut c, &Call::SpliceText { obj: id.clone(), pos: 0, del: 0, text: "x".into() }),
                    };
                    w.stats.bump("probe.edit_through_old_id");
                    if let Err(e) = res {
                        return Err(fail("edit_through_id", "edit-through-valid-id-fails", format!("replica {a}: an edit through {id} failed: {e}")));
                    }
                }
            }
            return Ok(());
        }
        // cursors: from a to b
        let seqs: Vec<ObjId> = w.pool.iter().filter(|p| p.typ.is_seq()).map(|p| p.id.clone()).filter(|id| w.present(a, id) && w.reps[a].doc.length(id) > 0).collect();
        if !seqs.is_empty() {
            let obj = seqs[sel as usize % seqs.len()].clone();
            let len = w.reps[a].doc.length(&obj);
            let pos = (sel as usize / 7) % len;
            if let Ok(cur) = w.reps[a].doc.get_cursor(&obj, pos, None) {
                w.stats.bump("probe.cursor_crossings");
                let c1 = automerge::Cursor::try_from(cur.to_bytes().as_slice()).map_err(|e| fail("cursor_bytes_roundtrip", "cursor-bytes-undecodable", format!("{e}")))?;
                let c2 = automerge::Cursor::try_from(cur.to_string().as_str()).map_err(|e| fail("cursor_string_roundtrip", "cursor-string-undecodable", format!("{cur}: {e}")))?;
                if c1 != cur || c2 != cur {
                    return Err(fail("cursor_roundtrip", "cursor-roundtrip-differs", format!("cursor {cur} decodes to {c1} (bytes) / {c2} (string)")));
                }
                // which element does position `pos` fall into on replica a (R1)? the cursor must resolve to its start
                let ca: Vec<&MChange> = w.reps[a].known.iter().filter_map(|h| w.reg.get(h).map(|c| &**c)).collect();
                let ia = Interp::new(ca.into_iter(), w.cfg.enc);
                let mut acc = 0usize;
                let mut start_a: Option<usize> = None;
                for e in ia.seq_elems(&objref_of(&obj)) {
                    if e.visible && e.width > 0 {
                        if pos < acc + e.width {
                            start_a = Some(acc);
                            break;
                        }
                        acc += e.width;
                    }
                }
                let back = w.reps[a].doc.get_cursor_position(&obj, &c1, None);
                if let Some(sa) = start_a {
                    if back.as_ref().ok() != Some(&sa) {
                        return Err(fail("cursor_resolves", "cursor-position-differs", format!("get_cursor({pos}) falls into the element starting at {sa}, but get_cursor_position through bytes = {back:?} on replica {a}")));
                    }
                }
                // in b: the cursor names an op; if b contains that op, the op's element, when visible in b, sits at R1's index
                let cs = cur.to_string();
                let named: Option<Oid> = cs.trim_start_matches('-').split_once('@').and_then(|(c, act)| Some(Oid { ctr: c.parse().ok()?, actor: hex::decode(act).ok()? }));
                if let (Some(op), true) = (named, w.present(b, &obj)) {
                    let changes: Vec<&MChange> = w.reps[b].known.iter().filter_map(|h| w.reg.get(h).map(|c| &**c)).collect();
                    let interp = Interp::new(changes.into_iter(), w.cfg.enc);
                    if let Some(tid) = interp.elem_of_op(&op) {
                        let elems = interp.seq_elems(&objref_of(&obj));
                        if let Some(k) = elems.iter().position(|e| e.id == tid) {
                            if elems[k].visible {
                                let want: usize = elems[..k].iter().filter(|e| e.visible).map(|e| e.width).sum();
                                let got = w.reps[b].doc.get_cursor_position(&obj, &c2, None);
                                if got.as_ref().ok() != Some(&want) {
                                    return Err(fail("cursor_resolves_elsewhere", "cursor-position-differs-across-replicas", format!("cursor {cur} taken at {pos} on replica {a} names op {} of element {}; replica {b} contains it, the element is visible at {want}, but get_cursor_position = {got:?}", op.show(), tid.show())));
                                }
                            }
                        }
                    }
                }
            }
        }
        // actor ids and hashes
        w.stats.bump("probe.hash_actor_roundtrips");
        for h in w.reps[a].known.iter().take(4) {
            let ch = automerge::ChangeHash(*h);
            let s = ch.to_string();
            if s.parse::<automerge::ChangeHash>().ok() != Some(ch) || automerge::ChangeHash::try_from(&h[..]).ok() != Some(ch) {
                return Err(fail("hash_roundtrip", "hash-roundtrip-differs", format!("hash {s}")));
            }
        }
        for act in ta.iter().take(4) {
            let aid = automerge::ActorId::from(act.as_slice());
            let s = aid.to_hex_string();
            if automerge::ActorId::try_from(s.as_str()).ok().as_ref() != Some(&aid) {
                return Err(fail("actor_roundtrip", "actor-roundtrip-differs", format!("actor {s}")));
            }
        }
        Ok(())
    }
}

impl Oracle for Ids {
    fn after(&mut self, w: &mut World, ev: &Ev, out: &Outcome) -> Result<(), Violation> {
        if let Ev::Probe { r, arg } = ev {
            let r = w.rsel(*r);
            for x in 0..w.n() {
                if w.reps[x].isolated.is_none() {
                    w.commit_pending(x);
                }
            }
            return self.probe(w, r, *arg);
        }
        if self.id == "C19" {
            if let Outcome::SyncGen { msg: Some(bytes), from, to } = out {
                w.stats.bump("probe.messages_roundtripped");
                let m = automerge::sync::Message::decode(bytes).map_err(|e| violation("C19", "message_roundtrip", "own-message-undecodable", w.step, format!("{e}")))?;
                let again = m.clone().encode();
                let m2 = automerge::sync::Message::decode(&again).map_err(|e| violation("C19", "message_roundtrip", "reencoded-message-undecodable", w.step, format!("{e}")))?;
                if m2 != m || again != *bytes {
                    return Err(violation("C19", "message_roundtrip", "message-roundtrip-differs", w.step, format!("a sync message from {from} to {to} does not survive decode/encode ({} vs {} bytes)", bytes.len(), again.len())));
                }
                // sync state of both sides
                let (lo, hi) = ((*from).min(*to) as u8, (*from).max(*to) as u8);
                if let Some(s) = w.sessions.get(&(lo, hi)) {
                    for st in &s.state {
                        w.stats.bump("probe.states_roundtripped");
                        let e1 = st.encode();
                        let d = automerge::sync::State::decode(&e1).map_err(|e| violation("C19", "state_roundtrip", "own-state-undecodable", w.step, format!("{e}")))?;
                        if d.shared_heads != st.shared_heads || d.encode() != e1 {
                            return Err(violation("C19", "state_roundtrip", "state-roundtrip-differs", w.step, "State::decode(State::encode(s)) lost shared_heads or re-encodes differently".to_string()));
                        }
                    }
                }
            }
        }
        Ok(())
    }

    fn finish(&mut self, w: &mut World) -> Result<(), Violation> {
        for r in 0..w.n() {
            if w.reps[r].isolated.is_some() {
                w.exec(&Ev::Integrate { r: r as u8 });
            }
            w.commit_pending(r);
        }
        for r in 0..w.n() {
            self.probe(w, r, w.cfg.p2.wrapping_add(r as u32 * 13))?;
        }
        Ok(())
    }

    fn nontrivial(&self, _w: &World) -> Option<u64> {
        if self.nontrivial {
            Some(self.digest.finish())
        } else {
            None
        }
    }
}
