//! C27 reconciliation and bulk construction; C25 marks (Peritext, agreement across reads, expand); C26 cursors.

use super::*;
use crate::events::*;
use crate::gen::{gen_text, Profile};
use crate::plain::{self, Plain};
use crate::prng::{Fnv, Rng};
use automerge::transaction::Transactable;
use automerge::{AutoCommit, ObjId, ReadDoc, ROOT};
use std::collections::{BTreeMap, HashMap};

pub fn def_c27() -> PropDef {
    PropDef {
        id: "C27",
        title: "Reconciliation and bulk-construction calls reach their target value",
        level: "exploration",
        profile: profile_c27,
        oracle: |_cfg| Box::new(C27::default()),
        quick_runs: 20_000,
        thorough_runs: 500_000,
        panic_is_violation: false,
        rule: "run = multi-replica history whose merged states (tombstones, conflicts, concurrent text, unicode) are the prior states; at probe points the oracle itself calls, on a live replica, one of: update_text(obj, s) (then text == s), update_object(obj, v) (then the winners image of the object == v), update_spans(text, spans) (then spans == the given spans after merging adjacent equal-mark text spans), batch_create_object / splice with nested values / init_root_from_hydrate on a fresh document (then the created value == the given value, == the same value built call by call on a twin, also after load(save())). Targets are generated nested maps/lists/text, unicode strings, block spans. non-trivial = prior state non-empty and the target differs from it in >= 2 places; distinct by digest of (kind, target)",
        custom: None,
        abort_prone: false,
        probes: &["probe.update_text", "probe.update_object", "probe.update_spans", "probe.batch_create", "probe.splice_nested", "probe.init_root", "probe.twin_compared", "probe.prior_nonempty"],
        fault_kinds: &["fault.reorder"],
    }
}

pub fn def_c25() -> PropDef {
    PropDef {
        id: "C25",
        title: "Rich-text marks follow Peritext semantics and agree across reads",
        level: "exploration",
        profile: profile_c25,
        oracle: |_cfg| Box::new(C25::default()),
        quick_runs: 20_000,
        thorough_runs: 500_000,
        panic_is_violation: false,
        rule: "run = multi-replica history of text edits interleaved with mark/unmark over overlapping ranges with all four expand settings, merges, save/load restarts; after every commit/delivery/merge/restart, for every text object: marks() (via R2), get_marks(i) for every unit and spans() must report the same marking as the reference interpreter (per position: the value of the greatest-id begun-and-not-ended mark of each name, null = unmarked), also at sampled historical heads and on a clone advanced by one change; and every element inserted by a just-committed local change must lie on the side of each mark anchor in its gap that the anchor's expand flag prescribes whenever all anchors in the gap can be satisfied at once. non-trivial = >= 2 overlapping marks of one name from different actors; distinct by digest of the text+marks state",
        custom: None,
        abort_prone: false,
        probes: &["probe.mark_texts_checked", "probe.overlapping_same_name_marks", "probe.expand_constraints_checked", "probe.expand_unsatisfiable", "probe.marks_historical", "probe.marks_after_reload", "probe.get_marks_units_checked", "probe.spans_checked"],
        fault_kinds: &["fault.reorder", "fault.crash.clean"],
    }
}

pub fn def_c26() -> PropDef {
    PropDef {
        id: "C26",
        title: "Cursors track their element through edits",
        level: "exploration",
        profile: profile_c26,
        oracle: |_cfg| Box::new(C26::default()),
        quick_runs: 60_000,
        thorough_runs: 500_000,
        panic_is_violation: false,
        rule: "run = multi-replica history of list/text edits; at probe points cursors are taken (both move modes, seeded positions, also at historical heads) and must resolve at once to the start of the element they were taken in; at every later probe and at the end every stored cursor is resolved, through its string or byte encoding, on every replica that contains the cursor's op, now and at historical heads containing it, and compared with the reference interpreter: element visible => its index in units; deleted => After: number of visible units before it; Before: index of the nearest visible ancestor along the insertion chain, else 0. non-trivial = a cursor was resolved after its element was deleted; distinct by digest of the (cursor, expected position) sequence",
        custom: None,
        abort_prone: false,
        probes: &["probe.cursors_taken", "probe.cursor_resolutions", "probe.cursor_after_delete", "probe.cursor_before_mode", "probe.cursor_historical", "probe.cursor_other_replica"],
        fault_kinds: &["fault.reorder"],
    }
}

pub fn profile_c27() -> Profile {
    Profile { replicas: (1, 3), events: (12, 110), w_probe: 8, w_merge: 5, e_put_obj: 12, e_insert_obj: 5, e_block: 3, max_keys: 4, ..Profile::default() }
}

pub fn profile_c25() -> Profile {
    Profile {
        text_conflict_prologue_permille: 120,
        replicas: (2, 4),
        events: (15, 140),
        w_merge: 5,
        w_commit: 14,
        w_save: 1,
        w_crash: 1,
        e_put: 3,
        e_put_obj: 5,
        e_insert: 1,
        e_insert_obj: 1,
        e_delete: 8,
        e_inc: 0,
        e_splice_text: 34,
        e_splice: 0,
        e_mark: 22,
        e_unmark: 10,
        max_keys: 2,
        ..Profile::default()
    }
}

pub fn profile_c26() -> Profile {
    Profile {
        text_conflict_prologue_permille: 120,
        replicas: (2, 4),
        events: (15, 140),
        w_merge: 5,
        w_probe: 8,
        w_commit: 14,
        e_put: 3,
        e_put_obj: 6,
        e_insert: 14,
        e_delete: 18,
        e_splice_text: 24,
        e_splice: 6,
        e_mark: 3,
        max_keys: 2,
        ..Profile::default()
    }
}

// ------------------------------------------------------------------------------------------------
// C27

#[derive(Default)]
pub struct C27 {
    nontrivial: bool,
    digest: Fnv,
}

fn gen_plain(rng: &mut Rng, depth: usize, enc: Enc) -> Plain {
    let _ = enc;
    match if depth == 0 { rng.below(3) + 3 } else { rng.below(6) } {
        0 => Plain::Map((0..rng.usize(4)).map(|i| (format!("k{i}"), gen_plain(rng, depth - 1, enc))).collect()),
        1 => Plain::List((0..rng.usize(4)).map(|_| gen_plain(rng, depth - 1, enc)).collect()),
        2 => Plain::Text(gen_text(rng, true, 6)),
        3 => Plain::Scalar(Sv::Int(rng.range(-5, 5))),
        4 => Plain::Scalar(Sv::Str(gen_text(rng, true, 4))),
        _ => Plain::Scalar(match rng.below(4) {
            0 => Sv::Bool(rng.bool()),
            1 => Sv::Null,
            2 => Sv::F64(2.5f64.to_bits()),
            _ => Sv::Uint(rng.below(100)),
        }),
    }
}

fn to_hydrate(p: &Plain, enc: Enc) -> automerge::hydrate::Value {
    use automerge::hydrate::Value as H;
    match p {
        Plain::Scalar(s) => H::Scalar(s.to_am()),
        Plain::Map(m) => {
            let hm: HashMap<String, H> = m.iter().map(|(k, v)| (k.clone(), to_hydrate(v, enc))).collect();
            H::Map(automerge::hydrate::Map::from(hm))
        }
        Plain::List(l) => H::from(l.iter().map(|v| to_hydrate(v, enc)).collect::<Vec<H>>()),
        Plain::Text(s) => H::text(enc.to_am(), s),
    }
}

/// build `p` under (obj, prop) with one API call per node
fn build_by_calls(doc: &mut AutoCommit, obj: &ObjId, prop: automerge::Prop, p: &Plain, insert: bool) -> Result<(), String> {
    let e = |x: automerge::AutomergeError| format!("{x}");
    match p {
        Plain::Scalar(s) => {
            match (&prop, insert) {
                (automerge::Prop::Seq(i), true) => doc.insert(obj, *i, s.to_am()).map_err(e)?,
                _ => doc.put(obj, prop, s.to_am()).map_err(e)?,
            }
            Ok(())
        }
        _ => {
            let ty = match p {
                Plain::Map(_) => automerge::ObjType::Map,
                Plain::List(_) => automerge::ObjType::List,
                _ => automerge::ObjType::Text,
            };
            let id = match (&prop, insert) {
                (automerge::Prop::Seq(i), true) => doc.insert_object(obj, *i, ty).map_err(e)?,
                _ => doc.put_object(obj, prop, ty).map_err(e)?,
            };
            match p {
                Plain::Map(m) => {
                    for (k, v) in m {
                        build_by_calls(doc, &id, automerge::Prop::Map(k.clone()), v, false)?;
                    }
                }
                Plain::List(l) => {
                    for (i, v) in l.iter().enumerate() {
                        build_by_calls(doc, &id, automerge::Prop::Seq(i), v, true)?;
                    }
                }
                Plain::Text(s) => doc.splice_text(&id, 0, 0, s).map_err(e)?,
                _ => {}
            }
            Ok(())
        }
    }
}

impl C27 {
    fn probe(&mut self, w: &mut World, r: usize, arg: u32) -> Result<(), Violation> {
        if w.reps[r].isolated.is_some() || w.reps[r].tainted {
            return Ok(());
        }
        let enc = w.cfg.enc;
        let step = w.step;
        let mut rng = Rng::new(arg as u64 ^ 0xC27);
        let kind = rng.below(6);
        let fail = |oracle: &str, sig: &str, d: String| violation("C27", oracle, sig, step, format!("replica {r}: {d}"));
        let prior = observe(&w.reps[r].doc, None).map_err(|e| fail("reads", "read-inconsistency", e.0.clone()))?;
        if prior.count_nodes() > 2 {
            w.stats.bump("probe.prior_nonempty");
        }
        let pick = |w: &World, rng: &mut Rng, want: &[OType]| -> Option<ObjId> {
            let c: Vec<ObjId> = w.pool.iter().filter(|p| want.contains(&p.typ) && w.present(r, &p.id)).map(|p| p.id.clone()).collect();
            if c.is_empty() {
                None
            } else {
                Some(c[rng.usize(c.len())].clone())
            }
        };
        match kind {
            0 => {
                let obj = match pick(w, &mut rng, &[OType::Text]) {
                    Some(o) => o,
                    None => return Ok(()),
                };
                let target = gen_text(&mut rng, true, 12);
                let before = w.reps[r].doc.text(&obj).unwrap_or_default();
                let mc = if has_multichar_element(&w.reps[r].doc, &obj, enc) { ":multichar-element" } else { "" };
                crate::monitor::set_subcontext("update_text");
                if let Err(e) = w.reps[r].doc.update_text(&obj, &target) {
                    return Err(fail("update_text_succeeds", &format!("update-text-failed{mc}"), format!("update_text({obj}, {target:?}) failed: {e}")));
                }
                w.stats.bump("probe.update_text");
                let after = w.reps[r].doc.text(&obj).unwrap_or_default();
                self.digest.str(&target);
                if !before.is_empty() && before != target {
                    self.nontrivial = true;
                }
                if after != target {
                    return Err(fail("update_text_reaches_target", &format!("update-text-differs{mc}"), format!("update_text from {before:?} to {target:?} left {after:?}")));
                }
            }
            1 => {
                let obj = match pick(w, &mut rng, &[OType::Map, OType::List]) {
                    Some(o) => o,
                    None => return Ok(()),
                };
                let is_map = w.reps[r].doc.object_type(&obj).map(|t| t == automerge::ObjType::Map).unwrap_or(true);
                let target = if is_map {
                    Plain::Map((0..rng.usize(4)).map(|i| (crate::world::KEYS[i % 4].to_string(), gen_plain(&mut rng, 2, enc))).collect())
                } else {
                    Plain::List((0..rng.usize(5)).map(|_| gen_plain(&mut rng, 2, enc)).collect())
                };
                // update_object reconciles nested text through update_text: same limitation, same suffix (any text present on
                // this replica holding such an element - an over-approximation of "inside the updated subtree")
                let texts: Vec<ObjId> = w.pool.iter().filter(|p| p.typ == OType::Text && w.present(r, &p.id)).map(|p| p.id.clone()).collect();
                let mc = if texts.iter().any(|t| has_multichar_element(&w.reps[r].doc, t, enc)) { ":multichar-element" } else { "" };
                crate::monitor::set_subcontext("update_object");
                let hv = to_hydrate(&target, enc);
                match w.reps[r].doc.update_object(&obj, &hv) {
                    Ok(()) => {}
                    Err(e) => return Err(fail("update_object_succeeds", &format!("update-object-failed{mc}:{}", sig_of_detail(&format!("{e}"))), format!("update_object({obj}) failed: {e}"))),
                }
                w.stats.bump("probe.update_object");
                self.digest.str(&format!("{target:?}"));
                self.nontrivial = true;
                let t = observe_obj(&w.reps[r].doc, &obj, None).map_err(|e| fail("reads", "read-inconsistency", e.0.clone()))?;
                if let Some(d) = plain::plain_diff(&target, &plain::of_tree(&t), "") {
                    return Err(fail("update_object_reaches_target", &format!("update-object-differs{mc}:{}", sig_of_detail(&d)), format!("target vs object after update_object: {d}")));
                }
            }
            2 | 3 | 5 => {
                // bulk creation vs call-by-call construction on a twin
                let target = match rng.below(3) {
                    0 => Plain::Map((0..1 + rng.usize(3)).map(|i| (format!("n{i}"), gen_plain(&mut rng, 2, enc))).collect()),
                    1 => Plain::List((0..1 + rng.usize(3)).map(|_| gen_plain(&mut rng, 2, enc)).collect()),
                    _ => Plain::Text(gen_text(&mut rng, true, 8)),
                };
                self.digest.str(&format!("{kind}{target:?}"));
                let hv = to_hydrate(&target, enc);
                let (mut a, mut b, label): (AutoCommit, AutoCommit, &str);
                let where_: (ObjId, automerge::Prop);
                if kind == 5 {
                    // init_root_from_hydrate on a fresh document
                    let m = match &target {
                        Plain::Map(m) => m.clone(),
                        other => [("v".to_string(), other.clone())].into_iter().collect(),
                    };
                    a = new_doc(enc, &[0xA1]);
                    b = new_doc(enc, &[0xA1]);
                    let hm: HashMap<String, automerge::hydrate::Value> = m.iter().map(|(k, v)| (k.clone(), to_hydrate(v, enc))).collect();
                    crate::monitor::set_subcontext("init_root_from_hydrate");
                    if let Err(e) = a.init_root_from_hydrate(&automerge::hydrate::Map::from(hm)) {
                        return Err(fail("init_root_succeeds", "init-root-failed", format!("{e}")));
                    }
                    for (k, v) in &m {
                        build_by_calls(&mut b, &ROOT, automerge::Prop::Map(k.clone()), v, false).map_err(|e| fail("twin_builds", "twin-build-failed", e))?;
                    }
                    w.stats.bump("probe.init_root");
                    label = "init_root_from_hydrate";
                    where_ = (ROOT, automerge::Prop::Map(String::new()));
                    let ta = observe(&a, None).map_err(|e| fail("reads", "read-inconsistency", e.0.clone()))?;
                    if let Some(d) = plain::plain_diff(&Plain::Map(m.clone()), &plain::of_tree(&ta), "") {
                        return Err(fail("bulk_reaches_target", &format!("bulk-differs:{label}"), format!("{label}: target vs created: {d}")));
                    }
                } else {
                    let obj = match pick(w, &mut rng, &[OType::Map, OType::List]) {
                        Some(o) => o,
                        None => return Ok(()),
                    };
                    let is_map = w.reps[r].doc.object_type(&obj).map(|t| t == automerge::ObjType::Map).unwrap_or(true);
                    a = w.reps[r].doc.clone();
                    b = w.reps[r].doc.clone();
                    if kind == 3 && !is_map {
                        // splice with nested values
                        let len = a.length(&obj);
                        let pos = rng.usize(len + 1);
                        let del = rng.usize(len - pos + 1).min(2);
                        let vals: Vec<Plain> = (0..1 + rng.usize(2)).map(|_| gen_plain(&mut rng, 2, enc)).collect();
                        crate::monitor::set_subcontext("splice with nested values");
                        if let Err(e) = a.splice(&obj, pos, del as isize, vals.iter().map(|v| to_hydrate(v, enc))) {
                            return Err(fail("splice_nested_succeeds", "splice-nested-failed", format!("{e}")));
                        }
                        for _ in 0..del {
                            b.delete(&obj, pos).map_err(|e| fail("twin_builds", "twin-build-failed", format!("{e}")))?;
                        }
                        for (j, v) in vals.iter().enumerate() {
                            build_by_calls(&mut b, &obj, automerge::Prop::Seq(pos + j), v, true).map_err(|e| fail("twin_builds", "twin-build-failed", e))?;
                        }
                        w.stats.bump("probe.splice_nested");
                        label = "splice_nested";
                        where_ = (obj.clone(), automerge::Prop::Seq(pos));
                        let tl = observe_obj(&a, &obj, None).map_err(|e| fail("reads", "read-inconsistency", e.0.clone()))?;
                        if let Plain::List(l) = plain::of_tree(&tl) {
                            for (j, v) in vals.iter().enumerate() {
                                if l.get(pos + j) != Some(v) {
                                    return Err(fail("bulk_reaches_target", &format!("bulk-differs:{label}"), format!("{label}: element {} is {:?}, expected {v:?}", pos + j, l.get(pos + j))));
                                }
                            }
                        }
                    } else {
                        let (prop, insert) = if is_map {
                            (automerge::Prop::Map(crate::world::KEYS[rng.usize(4)].to_string()), false)
                        } else {
                            let len = a.length(&obj);
                            let insert = rng.bool() || len == 0;
                            (automerge::Prop::Seq(if insert { rng.usize(len + 1) } else { rng.usize(len) }), insert)
                        };
                        if matches!(target, Plain::Scalar(_)) {
                            return Ok(());
                        }
                        crate::monitor::set_subcontext("batch_create_object");
                        if let Err(e) = a.batch_create_object(&obj, prop.clone(), &hv, insert) {
                            return Err(fail("batch_create_succeeds", &format!("batch-create-failed:{}", sig_of_detail(&format!("{e}"))), format!("batch_create_object({obj}, {prop}, insert={insert}) failed: {e}")));
                        }
                        build_by_calls(&mut b, &obj, prop.clone(), &target, insert).map_err(|e| fail("twin_builds", "twin-build-failed", e))?;
                        w.stats.bump("probe.batch_create");
                        label = "batch_create_object";
                        where_ = (obj.clone(), prop.clone());
                        let got = a.get(&obj, prop.clone()).ok().flatten();
                        if let Some((automerge::Value::Object(_), id)) = got {
                            let t = observe_obj(&a, &id, None).map_err(|e| fail("reads", "read-inconsistency", e.0.clone()))?;
                            if let Some(d) = plain::plain_diff(&target, &plain::of_tree(&t), "") {
                                return Err(fail("bulk_reaches_target", &format!("bulk-differs:{label}"), format!("{label}: target vs created: {d}")));
                            }
                        } else {
                            return Err(fail("bulk_reaches_target", &format!("bulk-differs:{label}"), format!("{label}: nothing visible at {prop} after the call")));
                        }
                    }
                    self.nontrivial = true;
                }
                // bulk == call by call, now and after save/load
                a.commit();
                b.commit();
                w.stats.bump("probe.twin_compared");
                let _ = &where_;
                for reload in [false, true] {
                    let (ta, tb) = if reload {
                        let la = AutoCommit::load_with_options(&a.save(), automerge::LoadOptions::new().text_encoding(enc.to_am())).map_err(|e| fail("bulk_reloads", &format!("bulk-reload-failed:{label}"), format!("{label}: load(save()) failed: {e}")))?;
                        let lb = AutoCommit::load_with_options(&b.save(), automerge::LoadOptions::new().text_encoding(enc.to_am())).map_err(|e| fail("twin_reloads", "twin-reload-failed", format!("{e}")))?;
                        (observe(&la, None), observe(&lb, None))
                    } else {
                        (observe(&a, None), observe(&b, None))
                    };
                    let ta = ta.map_err(|e| fail("reads", &format!("read-inconsistency:{label}"), e.0.clone()))?;
                    let tb = tb.map_err(|e| fail("reads", "read-inconsistency", e.0.clone()))?;
                    if let Some(d) = plain::plain_diff(&plain::of_tree(&tb), &plain::of_tree(&ta), "") {
                        return Err(fail("bulk_equals_call_by_call", &format!("bulk-vs-calls-differs:{label}"), format!("{label} (reload={reload}): built call by call vs bulk: {d}")));
                    }
                }
            }
            _ => {
                // update_spans
                let obj = match pick(w, &mut rng, &[OType::Text]) {
                    Some(o) => o,
                    None => return Ok(()),
                };
                let mut target: Vec<automerge::iter::Span> = Vec::new();
                let mut flat: Vec<(String, BTreeMap<String, Sv>)> = Vec::new();
                for _ in 0..1 + rng.usize(4) {
                    let text = gen_text(&mut rng, true, 4);
                    let mut mm: BTreeMap<String, Sv> = BTreeMap::new();
                    if rng.chance(400) {
                        mm.insert("bold".into(), Sv::Bool(true));
                    }
                    if rng.chance(200) {
                        mm.insert("link".into(), Sv::Str("u1".into()));
                    }
                    let marks = if mm.is_empty() { None } else { Some(std::sync::Arc::new(mm.iter().map(|(k, v)| (k.clone(), v.to_am())).collect::<automerge::marks::MarkSet>())) };
                    target.push(automerge::iter::Span::Text { text: text.clone(), marks });
                    flat.push((text, mm));
                }
                let mc = if has_multichar_element(&w.reps[r].doc, &obj, enc) { ":multichar-element" } else { "" };
                crate::monitor::set_subcontext("update_spans");
                if let Err(e) = w.reps[r].doc.update_spans(&obj, automerge::marks::UpdateSpansConfig::default(), target.clone()) {
                    return Err(fail("update_spans_succeeds", &format!("update-spans-failed{mc}"), format!("{e}")));
                }
                w.stats.bump("probe.update_spans");
                self.nontrivial = true;
                self.digest.str(&format!("{flat:?}"));
                // merge adjacent equal-mark spans on both sides
                let merge = |v: Vec<(String, BTreeMap<String, Sv>)>| -> Vec<(String, BTreeMap<String, Sv>)> {
                    let mut out: Vec<(String, BTreeMap<String, Sv>)> = Vec::new();
                    for (t, m) in v {
                        if t.is_empty() {
                            continue;
                        }
                        match out.last_mut() {
                            Some((lt, lm)) if *lm == m => lt.push_str(&t),
                            _ => out.push((t, m)),
                        }
                    }
                    out
                };
                let got: Vec<(String, BTreeMap<String, Sv>)> = w.reps[r]
                    .doc
                    .spans(&obj)
                    .map_err(|e| fail("spans", "spans-failed", format!("{e}")))?
                    .map(|s| match s {
                        automerge::iter::Span::Text { text, marks } => (text, marks.map(|m| m.iter().map(|(n, v)| (n.to_string(), Sv::from_am(v))).filter(|(_, v)| *v != Sv::Null).collect()).unwrap_or_default()),
                        automerge::iter::Span::Block(_) => (PLACEHOLDER.to_string(), BTreeMap::new()),
                    })
                    .collect();
                let (want, got) = (merge(flat), merge(got));
                if want != got {
                    return Err(fail("update_spans_reaches_target", &format!("update-spans-differs{mc}"), format!("target spans {want:?} vs spans() {got:?}")));
                }
            }
        }
        Ok(())
    }
}


/// does the text hold an element whose value is a string of more than one character (put/insert of "xy" on a text)?
/// update_text / update_spans reconcile per character and cannot address part of such an element (known finding)
fn has_multichar_element(doc: &automerge::AutoCommit, obj: &ObjId, enc: Enc) -> bool {
    use automerge::ReadDoc;
    let n = doc.length(obj);
    let mut i = 0;
    while i < n {
        let vals = doc.get_all(obj, i).unwrap_or_default();
        let mut w = 1;
        for (k, (v, _)) in vals.iter().enumerate() {
            if let automerge::Value::Scalar(s) = v {
                if let automerge::ScalarValue::Str(st) = s.as_ref() {
                    if st.chars().count() > 1 {
                        return true;
                    }
                    if k + 1 == vals.len() {
                        w = enc.width(st).max(1);
                    }
                }
            }
        }
        i += w;
    }
    false
}

impl Oracle for C27 {
    fn after(&mut self, w: &mut World, ev: &Ev, _out: &Outcome) -> Result<(), Violation> {
        if let Ev::Probe { r, arg } = ev {
            let r = w.rsel(*r);
            self.probe(w, r, *arg)?;
        }
        Ok(())
    }
    fn finish(&mut self, w: &mut World) -> Result<(), Violation> {
        for r in 0..w.n() {
            self.probe(w, r, w.cfg.p2.wrapping_add(r as u32 * 7))?;
            self.probe(w, r, w.cfg.p1.wrapping_add(r as u32 * 11))?;
        }
        Ok(())
    }
    fn nontrivial(&self, _w: &World) -> Option<u64> {
        if self.nontrivial {
            Some(self.digest.finish())
        } else {
            None
        }
    }
}

// ------------------------------------------------------------------------------------------------
// C25

#[derive(Default)]
pub struct C25 {
    nontrivial: bool,
    digest: Fnv,
    reg_len: usize,
    rolled_back: Vec<bool>,
}

fn marks_of(m: &automerge::marks::MarkSet) -> MarkMap {
    m.iter().map(|(n, v)| (n.to_string(), Sv::from_am(v))).filter(|(_, v)| *v != Sv::Null).collect()
}

impl C25 {
    /// marks(), get_marks(i), spans() against R1 for one text object at optional heads
    fn check_text(&mut self, w: &mut World, r: usize, doc: &AutoCommit, id: &ObjId, set: &std::collections::BTreeSet<Hash>, heads: Option<&[Hash]>, label: &str) -> Result<(), Violation> {
        let step = w.step;
        let enc = w.cfg.enc;
        let fail = |oracle: &str, sig: &str, d: String| violation("C25", oracle, sig, step, format!("replica {r}, text {id} ({label}): {d}"));
        let changes: Vec<&MChange> = set.iter().filter_map(|h| w.reg.get(h).map(|c| &**c)).collect();
        let interp = Interp::new(changes.into_iter(), enc);
        let oref = objref_of(id);
        if interp.obj_type(&oref) != Some(OType::Text) {
            return Ok(());
        }
        let want = match interp.object(&oref, OType::Text, 0) {
            Tree::Text(t) => t,
            _ => return Ok(()),
        };
        w.stats.bump("probe.mark_texts_checked");
        let hh = heads.map(to_hashes);
        // 1. marks() through R2
        let got = match Observer::new(doc, heads).object(id, OType::Text, 0) {
            Ok(Tree::Text(t)) => t,
            Ok(_) => return Ok(()),
            Err(e) => return Err(fail("marks_read", &read_sig(&e.0), e.0.clone())),
        };
        if got.text != want.text || got.widths != want.widths {
            // C02's business; marks cannot be compared on different texts
            return Ok(());
        }
        if got.marks != want.marks {
            let i = (0..want.marks.len()).find(|i| want.marks[*i] != got.marks[*i]).unwrap_or(0);
            let seq: Vec<String> = interp
                .seq_elems(&oref)
                .iter()
                .map(|e| match &e.kind {
                    ElemKind::Value => (if e.visible { "v" } else { "x" }).to_string(),
                    ElemKind::MarkBegin { name, value, expand } => format!("B[{name}={},{expand},{}]", value.brief(), e.id.show()),
                    ElemKind::MarkEnd { expand } => format!("E[{expand},{}]", e.id.show()),
                })
                .collect();
            // qualify the finding: empty (zero-width) marks in the sequence, or a rollback earlier on this replica
            let els = interp.seq_elems(&oref);
            let mut empty_mark = false;
            for (a, e) in els.iter().enumerate() {
                if let ElemKind::MarkBegin { .. } = e.kind {
                    let end_id = Oid { ctr: e.id.ctr + 1, actor: e.id.actor.clone() };
                    if let Some(b) = els.iter().position(|x| x.id == end_id) {
                        if b > a && els[a + 1..b].iter().all(|x| !x.visible) {
                            empty_mark = true;
                        }
                    }
                }
            }
            let q = if self.rolled_back.get(r).cloned().unwrap_or(false) { ":after-rollback" } else if empty_mark { ":with-empty-marks" } else { "" };
            // does a save/load round trip of the same document agree with the model? (then the in-memory indexes are stale)
            let reload = match automerge::AutoCommit::load_with_options(&doc.clone().save(), automerge::LoadOptions::new().text_encoding(enc.to_am())) {
                Ok(d2) => match Observer::new(&d2, heads).object(id, OType::Text, 0) {
                    Ok(Tree::Text(t2)) => {
                        if t2.marks == want.marks {
                            "after save+load marks() agrees with the model"
                        } else if t2.marks == got.marks {
                            "after save+load marks() is unchanged"
                        } else {
                            "after save+load marks() differs from both"
                        }
                    }
                    _ => "reload unreadable",
                },
                Err(_) => "reload failed",
            };
            return Err(fail("marks_equals_model", &format!("marks-vs-model{q}"), format!("element {i} of {:?}: model {:?}, marks() {:?}; {reload}; sequence {seq:?}", want.text, want.marks[i], got.marks[i])));
        }
        self.digest.str(&want.text);
        for m in &want.marks {
            for (k, v) in m {
                self.digest.str(k);
                self.digest.str(&v.brief());
            }
        }
        // 2. get_marks(i) for every unit
        let mut acc = 0;
        for (i, ew) in want.widths.iter().enumerate() {
            for u in acc..acc + ew {
                w.stats.bump("probe.get_marks_units_checked");
                let gm = doc.get_marks(id, u, hh.as_deref()).map_err(|e| fail("get_marks", "get-marks-failed", format!("get_marks({u}) failed: {e}")))?;
                let mm = marks_of(&gm);
                if mm != want.marks[i] {
                    let by_count = want.marks.get(u).map_or(false, |m| *m == mm) && u != i;
                    let sig = if by_count { "get-marks-indexed-by-element" } else { "get-marks-vs-marks-disagree" };
                    return Err(fail("get_marks_in_units", sig, format!("get_marks({u}) = {mm:?}, model says {:?} for element {i} of {:?}", want.marks[i], want.text)));
                }
            }
            acc += ew;
        }
        // 3. spans()
        let spans: Vec<automerge::iter::Span> = match &hh {
            None => doc.spans(id),
            Some(h) => doc.spans_at(id, h),
        }
        .map_err(|e| fail("spans", "spans-failed", format!("{e}")))?
        .collect();
        w.stats.bump("probe.spans_checked");
        let mut pos = 0usize;
        for s in &spans {
            match s {
                automerge::iter::Span::Text { text, marks } => {
                    let wdt = enc.width(text);
                    let mm = marks.as_ref().map(|m| marks_of(m)).unwrap_or_default();
                    let mut a = 0;
                    for (i, ew) in want.widths.iter().enumerate() {
                        if a >= pos && a < pos + wdt && want.marks[i] != mm {
                            return Err(fail("spans_marks_agree", "spans-marks-vs-marks", format!("span at {pos} ({text:?}) carries {mm:?}, the model says {:?} for the element at {a}", want.marks[i])));
                        }
                        a += ew;
                    }
                    pos += wdt;
                }
                automerge::iter::Span::Block(_) => pos += enc.width(PLACEHOLDER),
            }
        }
        Ok(())
    }

    fn check_replica(&mut self, w: &mut World, r: usize, deep: bool) -> Result<(), Violation> {
        if w.reps[r].isolated.is_some() || w.reps[r].tainted || w.reps[r].doc.pending_ops() > 0 {
            return Ok(());
        }
        let ids: Vec<ObjId> = w.pool.iter().filter(|p| p.typ == OType::Text).map(|p| p.id.clone()).filter(|id| w.present(r, id)).collect();
        let known = w.reps[r].known.clone();
        let doc = std::mem::replace(&mut w.reps[r].doc, AutoCommit::new());
        let mut res = Ok(());
        'outer: for id in &ids {
            res = self.check_text(w, r, &doc, id, &known, None, "current");
            if res.is_err() {
                break;
            }
            if deep {
                // historical heads + advanced clone (clock path)
                if let Some(hs) = w.pick_heads(r, w.cfg.p2.wrapping_add(w.step as u32)) {
                    if !hs.is_empty() {
                        let (anc, missing) = w.reg.ancestors(&hs);
                        if missing.is_empty() {
                            w.stats.bump("probe.marks_historical");
                            res = self.check_text(w, r, &doc, id, &anc, Some(&hs), "historical heads");
                            if res.is_err() {
                                break 'outer;
                            }
                        }
                    }
                }
                let cur = from_hashes(&w.reps[r].last_heads);
                let mut c = doc.clone();
                let _ = c.put(ROOT, "__verif_dummy", 1);
                c.commit();
                res = self.check_text(w, r, &c, id, &known, Some(&cur), "former heads on an advanced clone");
                if res.is_err() {
                    break;
                }
            }
        }
        w.reps[r].doc = doc;
        res?;
        // overlapping marks of one name from different actors (probe)
        let mut by_name: BTreeMap<String, std::collections::BTreeSet<Vec<u8>>> = BTreeMap::new();
        for h in &known {
            if let Some(c) = w.reg.get(h) {
                for op in &c.ops {
                    if let Act::MarkBegin { name, .. } = &op.act {
                        by_name.entry(name.clone()).or_default().insert(c.actor.clone());
                    }
                }
            }
        }
        if by_name.values().any(|a| a.len() >= 2) {
            w.stats.bump("probe.overlapping_same_name_marks");
            self.nontrivial = true;
        }
        Ok(())
    }

    /// expand semantics for the inserts of freshly created local changes
    fn check_expand(&mut self, w: &mut World) -> Result<(), Violation> {
        let fresh: Vec<Hash> = w.reg.order[self.reg_len.min(w.reg.order.len())..].to_vec();
        self.reg_len = w.reg.order.len();
        for h in fresh {
            let c = w.reg.changes[&h].clone();
            let r = c.creator;
            if r >= w.n() {
                continue;
            }
            // state in which the change was made: everything the creator knew (it is a superset of the deps' ancestors;
            // for honest non-isolated commits both coincide at commit time)
            let (mut set, missing) = w.reg.ancestors(&[h]);
            if !missing.is_empty() {
                continue;
            }
            set.insert(h);
            let changes: Vec<&MChange> = set.iter().filter_map(|x| w.reg.get(x).map(|c| &**c)).collect();
            let interp = Interp::new(changes.into_iter(), w.cfg.enc);
            // visibility as the transaction saw it: elements this very change deletes were still visible neighbours
            // when its inserts chose their place
            let before: Vec<&MChange> = set.iter().filter(|x| **x != h).filter_map(|x| w.reg.get(x).map(|c| &**c)).collect();
            let interp_before = Interp::new(before.into_iter(), w.cfg.enc);
            let mut objs: std::collections::BTreeSet<ObjRef> = Default::default();
            for op in &c.ops {
                if op.insert && matches!(op.act, Act::Put(_) | Act::Make(_)) && interp.obj_type(&op.obj) == Some(OType::Text) {
                    objs.insert(op.obj.clone());
                }
            }
            for obj in objs {
                let elems_final = interp.seq_elems(&obj);
                let _ = &interp_before;
                let mine = |e: &SeqElem| e.id.actor == c.actor && e.id.ctr >= c.start_op && e.id.ctr <= c.max_op();
                // mark begin ids that have their end inside the same gap are ignored: collect begin positions
                let pos_of: BTreeMap<&Oid, usize> = elems_final.iter().enumerate().map(|(i, e)| (&e.id, i)).collect();
                for (xi, x) in elems_final.iter().enumerate() {
                    if !mine(x) || x.kind != ElemKind::Value {
                        continue;
                    }
                    // only the first element of a run decides the placement; the rest chains after it
                    if xi > 0 && mine(&elems_final[xi - 1]) && elems_final[xi - 1].id.ctr + 1 == x.id.ctr {
                        continue;
                    }
                    // visibility as this insert saw it: everything before the change plus the change's earlier ops
                    let mut partial = (*c).clone();
                    partial.ops.retain(|o| o.id.ctr < x.id.ctr);
                    let mut seen: Vec<&MChange> = set.iter().filter(|y| **y != h).filter_map(|y| w.reg.get(y).map(|c| &**c)).collect();
                    seen.push(&partial);
                    let interp_seen = Interp::new(seen.into_iter(), w.cfg.enc);
                    let vis_seen: BTreeMap<Oid, bool> = interp_seen.seq_elems(&obj).into_iter().map(|e| (e.id, e.visible)).collect();
                    let mut elems = elems_final.clone();
                    for e in elems.iter_mut() {
                        if let Some(v) = vis_seen.get(&e.id) {
                            e.visible = *v;
                        }
                    }
                    // elements this change creates at or after x do not exist yet from x's point of view
                    let later = |e: &SeqElem| mine(e) && e.id.ctr >= x.id.ctr;
                    // gap: invisible elements (not mine) around x up to the nearest visible foreign value on each side
                    let mut lo = xi;
                    while lo > 0 && (later(&elems[lo - 1]) || !elems[lo - 1].visible) {
                        lo -= 1;
                    }
                    let mut hi = xi;
                    while hi + 1 < elems.len() && (later(&elems[hi + 1]) || !elems[hi + 1].visible) {
                        hi += 1;
                    }
                    // anchors in the gap made by other changes
                    let mut constraints: Vec<(usize, bool, String)> = Vec::new(); // (anchor position, x must be right of it, description)
                    let mut empty_pair_in_gap = false;
                    for j in lo..=hi {
                        let a = &elems[j];
                        if later(a) {
                            continue;
                        }
                        match &a.kind {
                            ElemKind::MarkBegin { expand, name, .. } => {
                                // its end: id ctr+1 same actor
                                let end_id = Oid { ctr: a.id.ctr + 1, actor: a.id.actor.clone() };
                                if let Some(ep) = pos_of.get(&end_id) {
                                    if *ep >= lo && *ep <= hi {
                                        empty_pair_in_gap = true;
                                        continue; // empty mark inside the gap
                                    }
                                }
                                constraints.push((j, *expand, format!("begin of {name} (expand={expand})")));
                            }
                            ElemKind::MarkEnd { expand } => {
                                let begin_id = Oid { ctr: a.id.ctr.saturating_sub(1), actor: a.id.actor.clone() };
                                if let Some(bp) = pos_of.get(&begin_id) {
                                    if *bp >= lo && *bp <= hi {
                                        continue;
                                    }
                                }
                                // expand=true: the inserted text is covered => left of the end anchor
                                constraints.push((j, !*expand, format!("end (expand={expand})")));
                            }
                            ElemKind::Value => {}
                        }
                    }
                    if constraints.is_empty() {
                        continue;
                    }
                    w.stats.bump("probe.expand_constraints_checked");
                    // satisfiable? there must be a slot s (between positions) with all right-of anchors before it and left-of after it
                    let max_right = constraints.iter().filter(|c| c.1).map(|c| c.0).max();
                    let min_left = constraints.iter().filter(|c| !c.1).map(|c| c.0).min();
                    let satisfiable = match (max_right, min_left) {
                        (Some(a), Some(b)) => a < b,
                        _ => true,
                    };
                    if !satisfiable {
                        w.stats.bump("probe.expand_unsatisfiable");
                        continue;
                    }
                    let gap_desc: Vec<String> = (lo..=hi)
                        .map(|j| {
                            let e = &elems[j];
                            let m = if mine(e) { "*" } else { "" };
                            match &e.kind {
                                ElemKind::Value => format!("{j}:{}{m}", if e.visible { "v" } else { "x" }),
                                ElemKind::MarkBegin { name, expand, .. } => format!("{j}:B[{name},{expand},{}]{m}", e.id.show()),
                                ElemKind::MarkEnd { expand } => format!("{j}:E[{expand},{}]{m}", e.id.show()),
                            }
                        })
                        .collect();
                    for (j, right_of, desc) in &constraints {
                        let ok = if *right_of { xi > *j } else { xi < *j };
                        if !ok {
                            return Err(violation(
                                "C25",
                                "expand_respected",
                                &format!("expand-violated:{}{}", if *right_of { "should-be-after-anchor" } else { "should-be-before-anchor" }, if empty_pair_in_gap { ":gap-with-empty-mark" } else { "" }),
                                w.step,
                                format!("replica {r}: change {} inserted element {} into text {} on the wrong side of the mark {desc} at sequence position {j} (element at {xi}); all {} anchors in its gap could have been honoured; gap = {gap_desc:?}", short(&h), x.id.show(), obj.show(), constraints.len()),
                            ));
                        }
                    }
                }
            }
        }
        Ok(())
    }
}

impl Oracle for C25 {
    fn after(&mut self, w: &mut World, _ev: &Ev, out: &Outcome) -> Result<(), Violation> {
        self.check_expand(w)?;
        while self.rolled_back.len() < w.n() {
            self.rolled_back.push(false);
        }
        if let Outcome::RolledBack { r, .. } = out {
            self.rolled_back[*r] = true;
        }
        if let Outcome::Forked { r, new } = out {
            self.rolled_back[*new] = self.rolled_back[*r];
        }
        match out {
            Outcome::Committed { r, .. } => self.check_replica(w, *r, false),
            Outcome::Delivered { to, .. } | Outcome::Merged { to, .. } => self.check_replica(w, *to, w.step % 4 == 0),
            Outcome::Restarted { r, .. } => {
                w.stats.bump("probe.marks_after_reload");
                self.check_replica(w, *r, true)
            }
            _ => Ok(()),
        }
    }
    fn finish(&mut self, w: &mut World) -> Result<(), Violation> {
        for r in 0..w.n() {
            if w.reps[r].isolated.is_none() {
                w.commit_pending(r);
            }
        }
        self.check_expand(w)?;
        for r in 0..w.n() {
            self.check_replica(w, r, true)?;
        }
        Ok(())
    }
    fn nontrivial(&self, _w: &World) -> Option<u64> {
        if self.nontrivial {
            Some(self.digest.finish())
        } else {
            None
        }
    }
}

// ------------------------------------------------------------------------------------------------
// C26

struct Stored {
    obj: ObjId,
    text: String,
    bytes: Vec<u8>,
    op: Oid,
    before_mode: bool,
}

#[derive(Default)]
pub struct C26 {
    cursors: Vec<Stored>,
    nontrivial: bool,
    digest: Fnv,
}

/// expected position of a cursor naming `op` in the sequence `obj` per R1
fn expected_position(interp: &Interp, obj: &ObjRef, op: &Oid, before_mode: bool) -> Option<(usize, bool)> {
    let elem = interp.elem_of_op(op)?;
    let elems = interp.seq_elems(obj);
    let k = elems.iter().position(|e| e.id == elem)?;
    let units_before = |k: usize| -> usize { elems[..k].iter().filter(|e| e.visible).map(|e| e.width).sum() };
    if elems[k].visible {
        return Some((units_before(k), false));
    }
    if !before_mode {
        return Some((units_before(k), true));
    }
    // Before: nearest visible ancestor along the insertion chain
    let after_index = units_before(k);
    if after_index == 0 {
        return Some((0, true));
    }
    let mut cur = elems[k].parent.clone();
    while let Some(p) = cur {
        match elems.iter().position(|e| e.id == p) {
            Some(j) => {
                if elems[j].visible {
                    return Some((units_before(j), true));
                }
                cur = elems[j].parent.clone();
            }
            None => break,
        }
    }
    Some((0, true))
}

impl C26 {
    fn take(&mut self, w: &mut World, r: usize, sel: u32) -> Result<(), Violation> {
        if w.reps[r].isolated.is_some() || w.reps[r].tainted || w.reps[r].doc.pending_ops() > 0 {
            return Ok(());
        }
        let seqs: Vec<ObjId> = w.pool.iter().filter(|p| p.typ.is_seq()).map(|p| p.id.clone()).filter(|id| w.present(r, id) && w.reps[r].doc.length(id) > 0).collect();
        if seqs.is_empty() || self.cursors.len() >= 24 {
            return Ok(());
        }
        let obj = seqs[sel as usize % seqs.len()].clone();
        let len = w.reps[r].doc.length(&obj);
        let pos = (sel as usize / 11) % len;
        let before_mode = sel % 3 == 0;
        let mode = if before_mode { automerge::MoveCursor::Before } else { automerge::MoveCursor::After };
        let cur = match w.reps[r].doc.get_cursor_moving(&obj, pos, None, mode) {
            Ok(c) => c,
            Err(e) => return Err(violation("C26", "get_cursor_succeeds", "get-cursor-failed", w.step, format!("replica {r}: get_cursor({obj}, {pos}) on a sequence of length {len} failed: {e}"))),
        };
        w.stats.bump("probe.cursors_taken");
        if before_mode {
            w.stats.bump("probe.cursor_before_mode");
        }
        let text = cur.to_string();
        let op: Option<Oid> = text.trim_start_matches('-').split_once('@').and_then(|(c, a)| Some(Oid { ctr: c.parse().ok()?, actor: hex::decode(a).ok()? }));
        // immediate resolution: start of the element containing pos
        let changes: Vec<&MChange> = w.reps[r].known.iter().filter_map(|h| w.reg.get(h).map(|c| &**c)).collect();
        let interp = Interp::new(changes.into_iter(), w.cfg.enc);
        let elems = interp.seq_elems(&objref_of(&obj));
        let mut acc = 0;
        let mut start = None;
        let mut elem: Option<Oid> = None;
        for e in elems.iter().filter(|e| e.visible && e.width > 0) {
            if pos < acc + e.width {
                start = Some(acc);
                elem = Some(e.id.clone());
                break;
            }
            acc += e.width;
        }
        // a cursor taken at an index inside the sequence is an element cursor, and it names the element containing the index
        let op = match (op, &elem) {
            (Some(o), Some(e)) => {
                if interp.elem_of_op(&o).as_ref() != Some(e) {
                    return Err(violation("C26", "cursor_names_element", "cursor-names-other-element", w.step, format!("replica {r}: get_cursor({obj}, {pos}, {}) = {text} names {:?}, the element containing {pos} is {}", if before_mode { "Before" } else { "After" }, interp.elem_of_op(&o).map(|x| x.show()), e.show())));
                }
                o
            }
            (None, Some(e)) => {
                return Err(violation("C26", "cursor_names_element", "cursor-not-an-element-cursor", w.step, format!("replica {r}: get_cursor({obj}, {pos}, {}) on a sequence of length {len} = {text:?}, not a cursor for element {}", if before_mode { "Before" } else { "After" }, e.show())));
            }
            (Some(o), None) => o,
            (None, None) => return Ok(()),
        };
        let back = w.reps[r].doc.get_cursor_position(&obj, &cur, None);
        if let Some(s) = start {
            if back.as_ref().ok() != Some(&s) {
                return Err(violation("C26", "cursor_roundtrip", "cursor-roundtrip-differs", w.step, format!("replica {r}: get_cursor_position(get_cursor({pos})) = {back:?}, the element containing {pos} starts at {s}")));
            }
        }
        self.cursors.push(Stored { obj, text, bytes: cur.to_bytes(), op, before_mode });
        Ok(())
    }

    fn resolve_all(&mut self, w: &mut World) -> Result<(), Violation> {
        for ci in 0..self.cursors.len() {
            for r in 0..w.n() {
                if w.reps[r].isolated.is_some() || w.reps[r].tainted || w.reps[r].doc.pending_ops() > 0 {
                    continue;
                }
                let c = &self.cursors[ci];
                if !w.present(r, &c.obj) {
                    continue;
                }
                // current state and one historical head set that contains the op
                let mut views: Vec<(Option<Vec<Hash>>, std::collections::BTreeSet<Hash>)> = vec![(None, w.reps[r].known.clone())];
                if let Some(hs) = w.pick_heads(r, (ci as u32).wrapping_mul(97).wrapping_add(w.step as u32)) {
                    let (anc, missing) = w.reg.ancestors(&hs);
                    if missing.is_empty() && !hs.is_empty() {
                        views.push((Some(hs), anc));
                    }
                }
                for (heads, set) in views {
                    let changes: Vec<&MChange> = set.iter().filter_map(|h| w.reg.get(h).map(|c| &**c)).collect();
                    let interp = Interp::new(changes.into_iter(), w.cfg.enc);
                    if !interp.has_op(&c.op) || interp.obj_type(&objref_of(&c.obj)).is_none() {
                        continue;
                    }
                    let (want, deleted) = match expected_position(&interp, &objref_of(&c.obj), &c.op, c.before_mode) {
                        Some(x) => x,
                        None => continue,
                    };
                    w.stats.bump("probe.cursor_resolutions");
                    if heads.is_some() {
                        w.stats.bump("probe.cursor_historical");
                    }
                    if deleted {
                        w.stats.bump("probe.cursor_after_delete");
                        self.nontrivial = true;
                    }
                    self.digest.str(&c.text);
                    self.digest.u64(want as u64);
                    // decode through string or bytes alternately
                    let cur = if (ci + r) % 2 == 0 { automerge::Cursor::try_from(c.text.as_str()).ok() } else { automerge::Cursor::try_from(c.bytes.as_slice()).ok() };
                    let cur = match cur {
                        Some(c) => c,
                        None => return Err(violation("C26", "cursor_decodes", "cursor-undecodable", w.step, format!("stored cursor {} does not decode", c.text))),
                    };
                    let hh = heads.as_ref().map(|h| to_hashes(h));
                    let got = w.reps[r].doc.get_cursor_position(&c.obj, &cur, hh.as_deref());
                    if got.as_ref().ok() != Some(&want) {
                        let mode = if c.before_mode { "before" } else { "after" };
                        // is an overwritten element involved (the cursor's element or one on its insertion chain)?
                        let oref = objref_of(&c.obj);
                        let els = interp.seq_elems(&oref);
                        let mut chain_overwritten = false;
                        let mut chain_mark = false;
                        let mut cur_e = interp.elem_of_op(&c.op);
                        while let Some(e) = cur_e {
                            if interp.elem_overwritten(&oref, &e) {
                                chain_overwritten = true;
                            }
                            if els.iter().any(|x| x.id == e && x.kind != ElemKind::Value) {
                                chain_mark = true;
                            }
                            cur_e = els.iter().find(|x| x.id == e).and_then(|x| x.parent.clone());
                        }
                        let sig = format!("cursor-position-differs:{}:{mode}:{}:{}{}", if deleted { "deleted" } else { "visible" }, if heads.is_some() { "historical" } else { "current" }, if got.is_err() { "err" } else { "wrong-index" }, if chain_overwritten { ":overwritten-element-on-chain" } else if chain_mark { ":mark-op-on-chain" } else { "" });
                        let seq: Vec<String> = interp.seq_elems(&objref_of(&c.obj)).iter().map(|e| format!("{}{}{}", e.id.show(), if e.visible { "+" } else { "-" }, e.parent.as_ref().map(|p| format!("<{}", p.show())).unwrap_or_default())).collect();
                        let now = w.reps[r].doc.get_cursor_position(&c.obj, &cur, None);
                        let extra = format!("; elements {seq:?}; same cursor at current heads = {now:?}; named op {} -> element {:?}", c.op.show(), interp.elem_of_op(&c.op).map(|e| e.show()));
                        return Err(violation(
                            "C26",
                            "cursor_tracks_element",
                            &sig,
                            w.step,
                            format!("replica {r}{}: cursor {} (mode {mode}) on {}: element is {}; expected position {want}, get_cursor_position = {got:?}{extra}", if heads.is_some() { " at historical heads" } else { "" }, c.text, c.obj, if deleted { "deleted" } else { "visible" }),
                        ));
                    }
                }
            }
        }
        if w.n() > 1 && !self.cursors.is_empty() {
            w.stats.bump("probe.cursor_other_replica");
        }
        Ok(())
    }
}

impl Oracle for C26 {
    fn after(&mut self, w: &mut World, ev: &Ev, _out: &Outcome) -> Result<(), Violation> {
        if let Ev::Probe { r, arg } = ev {
            let r = w.rsel(*r);
            for x in 0..w.n() {
                if w.reps[x].isolated.is_none() {
                    w.commit_pending(x);
                }
            }
            self.resolve_all(w)?;
            self.take(w, r, *arg)?;
        }
        Ok(())
    }
    fn finish(&mut self, w: &mut World) -> Result<(), Violation> {
        for x in 0..w.n() {
            if w.reps[x].isolated.is_none() {
                w.commit_pending(x);
            }
        }
        self.resolve_all(w)
    }
    fn nontrivial(&self, _w: &World) -> Option<u64> {
        if self.nontrivial {
            Some(self.digest.finish())
        } else {
            None
        }
    }
}
