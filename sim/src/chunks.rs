//! The harness's own reader for the chunk container format (never shares code with the library's parser).
//!
//! chunk = magic(4: 85 6f 4a 83) ‖ checksum(4) ‖ type(1) ‖ uleb128(len) ‖ data(len)
//! checksum = first 4 bytes of SHA-256(type ‖ uleb128(len) ‖ data); for a compressed change (type 2) the
//! checksum is that of the *uncompressed* change chunk (type 1), so it can only be recomputed by inflating.

use sha2::Digest;

pub const MAGIC: [u8; 4] = [0x85, 0x6f, 0x4a, 0x83];

#[derive(Clone, Debug, PartialEq)]
pub struct ChunkInfo {
    pub start: usize,
    pub end: usize,
    pub typ: u8,
    pub len_start: usize,
    pub data_start: usize,
}

pub fn read_uleb(bytes: &[u8], mut pos: usize) -> Option<(u64, usize)> {
    let mut result: u64 = 0;
    let mut shift = 0u32;
    loop {
        let b = *bytes.get(pos)?;
        pos += 1;
        if shift >= 64 {
            return None;
        }
        result |= ((b & 0x7f) as u64) << shift;
        if b & 0x80 == 0 {
            return Some((result, pos));
        }
        shift += 7;
    }
}

pub fn write_uleb(mut v: u64, out: &mut Vec<u8>) {
    loop {
        let b = (v & 0x7f) as u8;
        v >>= 7;
        if v == 0 {
            out.push(b);
            return;
        }
        out.push(b | 0x80);
    }
}

pub fn write_sleb(mut v: i64, out: &mut Vec<u8>) {
    loop {
        let b = (v & 0x7f) as u8;
        let sign = b & 0x40 != 0;
        v >>= 7;
        if (v == 0 && !sign) || (v == -1 && sign) {
            out.push(b);
            return;
        }
        out.push(b | 0x80);
    }
}

/// the complete chunks at the front of `bytes` (stops at the first incomplete or malformed one)
pub fn parse_chunks(bytes: &[u8]) -> Vec<ChunkInfo> {
    let mut out = Vec::new();
    let mut pos = 0usize;
    while pos + 9 <= bytes.len() {
        if bytes[pos..pos + 4] != MAGIC {
            break;
        }
        let typ = bytes[pos + 8];
        let (len, data_start) = match read_uleb(bytes, pos + 9) {
            Some(x) => x,
            None => break,
        };
        let end = match data_start.checked_add(len as usize) {
            Some(e) if e <= bytes.len() => e,
            _ => break,
        };
        out.push(ChunkInfo {
            start: pos,
            end,
            typ,
            len_start: pos + 9,
            data_start,
        });
        pos = end;
    }
    out
}

pub fn sha256(data: &[u8]) -> [u8; 32] {
    let mut h = sha2::Sha256::new();
    h.update(data);
    let out = h.finalize();
    let mut r = [0u8; 32];
    r.copy_from_slice(&out);
    r
}

/// hash of an uncompressed chunk (type ‖ len ‖ data)
pub fn chunk_digest(bytes: &[u8], c: &ChunkInfo) -> [u8; 32] {
    sha256(&bytes[c.start + 8..c.end])
}

pub fn stored_checksum(bytes: &[u8], c: &ChunkInfo) -> [u8; 4] {
    let mut r = [0u8; 4];
    r.copy_from_slice(&bytes[c.start + 4..c.start + 8]);
    r
}

pub fn inflate(data: &[u8]) -> Option<Vec<u8>> {
    use std::io::Read;
    let mut d = flate2::read::DeflateDecoder::new(data);
    let mut out = Vec::new();
    d.take(1 << 24).read_to_end(&mut out).ok()?;
    Some(out)
}

pub fn deflate(data: &[u8]) -> Vec<u8> {
    use std::io::Write;
    let mut e = flate2::write::DeflateEncoder::new(Vec::new(), flate2::Compression::default());
    e.write_all(data).unwrap();
    e.finish().unwrap()
}

/// the checksum the chunk *should* carry given its current contents; None when it cannot be computed
/// (compressed change whose body no longer inflates)
pub fn expected_checksum(bytes: &[u8], c: &ChunkInfo) -> Option<[u8; 4]> {
    let d = if c.typ == 2 {
        let body = inflate(&bytes[c.data_start..c.end])?;
        let mut buf = vec![1u8];
        write_uleb(body.len() as u64, &mut buf);
        buf.extend_from_slice(&body);
        sha256(&buf)
    } else {
        chunk_digest(bytes, c)
    };
    let mut r = [0u8; 4];
    r.copy_from_slice(&d[..4]);
    Some(r)
}

/// rewrite the stored checksum of chunk `c` so that it matches the current contents
pub fn fix_checksum(bytes: &mut [u8], c: &ChunkInfo) -> bool {
    match expected_checksum(bytes, c) {
        Some(x) => {
            bytes[c.start + 4..c.start + 8].copy_from_slice(&x);
            true
        }
        None => false,
    }
}

/// replace the data of chunk `c` (and its length field), returning the new byte string with a valid checksum
pub fn replace_data(bytes: &[u8], c: &ChunkInfo, data: &[u8]) -> Vec<u8> {
    let mut out = bytes[..c.start].to_vec();
    out.extend_from_slice(&MAGIC);
    out.extend_from_slice(&[0, 0, 0, 0]);
    out.push(c.typ);
    write_uleb(data.len() as u64, &mut out);
    out.extend_from_slice(data);
    let end = out.len();
    out.extend_from_slice(&bytes[c.end..]);
    let ci = ChunkInfo {
        start: c.start,
        end,
        typ: c.typ,
        len_start: c.start + 9,
        data_start: end - data.len(),
    };
    fix_checksum(&mut out, &ci);
    out
}
