//! The simulated world: replicas (real automerge documents), the change registry, gossip links,
//! sync sessions, disks, and the executor that applies one event at a time.

use crate::events::*;
use crate::model::*;
use crate::observe::*;
use automerge::sync::SyncDoc;
use automerge::transaction::{CommitOptions, Transactable};
use automerge::{ActorId, AutoCommit, Change, ChangeHash, ObjId, ObjType, ReadDoc, ROOT};
use std::collections::{BTreeMap, BTreeSet, VecDeque};

pub const KEYS: [&str; 10] = ["a", "b", "c", "d", "e", "f", "é", "", "k😀", "zz"];
pub const MARK_NAMES: [&str; 4] = ["bold", "link", "i", "c"];

#[derive(Clone, Debug, serde::Serialize, serde::Deserialize, PartialEq)]
pub struct Violation {
    pub property: String,
    pub oracle: String,
    /// stable identity of the failure (used for shrinking and known findings)
    pub signature: String,
    pub step: u64,
    pub detail: String,
}

pub fn violation(property: &str, oracle: &str, signature: &str, step: u64, detail: String) -> Violation {
    Violation {
        property: property.into(),
        oracle: oracle.into(),
        signature: signature.into(),
        step,
        detail,
    }
}

#[derive(Clone, Debug)]
pub struct Piece {
    pub bytes: Vec<u8>,
    pub kind: PieceKind,
    /// applied change set of the writer when this piece was written
    pub writer_set: BTreeSet<Hash>,
    /// changes the writer was holding back (queued) that this piece retains (save with orphans)
    pub orphans: BTreeSet<Hash>,
}

#[derive(Clone, Copy, Debug, PartialEq)]
pub enum PieceKind {
    Save,
    Incremental,
    SaveAfter,
}

#[derive(Clone, Debug, Default)]
pub struct Disk {
    pub current: Vec<Piece>,
    pub durable: Vec<Piece>,
    pub snapshots: Vec<Vec<Piece>>,
}

impl Disk {
    pub fn bytes_of(pieces: &[Piece]) -> Vec<u8> {
        let mut v = Vec::new();
        for p in pieces {
            v.extend_from_slice(&p.bytes);
        }
        v
    }
}

#[derive(Clone, Debug)]
pub struct Packet {
    pub blobs: Vec<Vec<u8>>,
    /// true: `blobs[0]` is a chunk stream for load_incremental (bundle / full save)
    pub stream: bool,
    pub batch: bool,
    pub hashes: Vec<Hash>,
    /// sent by a replica that had accepted byzantine input (taint propagates with the data)
    pub tainted: bool,
}

pub struct Session {
    /// indexed by side: 0 = lower replica index, 1 = higher
    pub state: [automerge::sync::State; 2],
    pub queue: [VecDeque<Vec<u8>>; 2], // queue[i]: messages travelling *to* side i
    pub msgs_sent: u64,
}

pub struct Replica {
    pub doc: AutoCommit,
    pub actor: Vec<u8>,
    pub clock: i64,
    /// applied set as reported by the document (harvested)
    pub known: BTreeSet<Hash>,
    pub last_heads: Vec<ChangeHash>,
    /// everything the harness handed to this document (plus what it created itself)
    pub delivered: BTreeSet<Hash>,
    pub disk: Disk,
    pub sent_heads: BTreeMap<u8, Vec<ChangeHash>>,
    pub sync_store: BTreeMap<u8, Vec<u8>>,
    pub isolated: Option<Vec<Hash>>,
    /// fed byzantine input: exempt from convergence oracles
    pub tainted: bool,
    pub restarts: u32,
}

#[derive(Clone, Debug)]
pub struct PoolObj {
    pub id: ObjId,
    pub typ: OType,
    pub creator: usize,
}

#[derive(Clone, Debug)]
pub enum Call {
    Put { obj: ObjId, prop: PropK, val: Sv },
    PutObj { obj: ObjId, prop: PropK, ty: OType },
    Insert { obj: ObjId, idx: usize, val: Sv },
    InsertObj { obj: ObjId, idx: usize, ty: OType },
    Delete { obj: ObjId, prop: PropK },
    Inc { obj: ObjId, prop: PropK, by: i64 },
    SpliceText { obj: ObjId, pos: usize, del: isize, text: String },
    Splice { obj: ObjId, pos: usize, del: isize, vals: Vec<Sv> },
    Mark { obj: ObjId, start: usize, end: usize, name: String, val: Sv, expand: u8 },
    Unmark { obj: ObjId, start: usize, end: usize, name: String, expand: u8 },
    SplitBlock { obj: ObjId, idx: usize },
    JoinBlock { obj: ObjId, idx: usize },
    ReplaceBlock { obj: ObjId, idx: usize },
    UpdateText { obj: ObjId, text: String },
}

impl Call {
    pub fn obj(&self) -> &ObjId {
        match self {
            Call::Put { obj, .. } | Call::PutObj { obj, .. } | Call::Insert { obj, .. } | Call::InsertObj { obj, .. } | Call::Delete { obj, .. } | Call::Inc { obj, .. } | Call::SpliceText { obj, .. } | Call::Splice { obj, .. } | Call::Mark { obj, .. } | Call::Unmark { obj, .. } | Call::SplitBlock { obj, .. } | Call::JoinBlock { obj, .. } | Call::ReplaceBlock { obj, .. } | Call::UpdateText { obj, .. } => obj,
        }
    }
}

#[derive(Clone, Debug, PartialEq)]
pub enum PropK {
    Key(String),
    Idx(usize),
}

impl PropK {
    pub fn to_prop(&self) -> automerge::Prop {
        match self {
            PropK::Key(k) => automerge::Prop::Map(k.clone()),
            PropK::Idx(i) => automerge::Prop::Seq(*i),
        }
    }
}

/// what an executed event did — read by the oracles
#[derive(Debug)]
pub enum Outcome {
    Nop,
    Edit { r: usize, call: Call, result: Result<Option<ObjId>, String>, target_type: Option<OType> },
    Committed { r: usize, hash: Option<Hash> },
    RolledBack { r: usize, ops: usize },
    Sent { from: usize, to: usize, n: usize },
    Delivered { to: usize, hashes: Vec<Hash>, result: Result<(), String>, stream: bool },
    Merged { from: usize, to: usize, result: Result<(), String> },
    Forked { r: usize, new: usize },
    Saved { r: usize },
    Restarted { r: usize, loaded: Result<(), String>, kind: CrashKind, opts: LoadOpts, file_len: usize },
    SyncGen { from: usize, to: usize, msg: Option<Vec<u8>> },
    SyncRecv { from: usize, to: usize, result: Result<(), String> },
    /// a byzantine input was handed to replica r
    Byz { r: usize, what: String, desc: String, result: Result<(), String>, changed: bool },
    Other,
}

#[derive(Default, Clone, Debug, serde::Serialize, serde::Deserialize)]
pub struct Stats {
    pub counters: BTreeMap<String, u64>,
}

impl Stats {
    pub fn bump(&mut self, k: &str) {
        self.add(k, 1);
    }
    pub fn add(&mut self, k: &str, n: u64) {
        if let Some(v) = self.counters.get_mut(k) {
            *v += n;
        } else {
            self.counters.insert(k.to_string(), n);
        }
    }
    pub fn get(&self, k: &str) -> u64 {
        self.counters.get(k).cloned().unwrap_or(0)
    }
    pub fn merge(&mut self, o: &Stats) {
        for (k, v) in &o.counters {
            if k.ends_with("_max") {
                let cur = self.get(k);
                self.counters.insert(k.clone(), cur.max(*v));
            } else {
                self.add(k, *v);
            }
        }
    }
}

pub struct World {
    pub cfg: Cfg,
    pub reps: Vec<Replica>,
    pub reg: Registry,
    pub links: BTreeMap<(u8, u8), Vec<Packet>>,
    pub sessions: BTreeMap<(u8, u8), Session>,
    pub pool: Vec<PoolObj>,
    /// head sets seen anywhere in the run (for historical reads, isolation, fork_at, save_after)
    pub head_sets: Vec<Vec<Hash>>,
    pub step: u64,
    pub stats: Stats,
    pub spare_next: usize,
    /// digest of the executed (event kind, replica) sequence
    pub interleaving: crate::prng::Fnv,
    /// set when a harness-level inconsistency is detected (exit code 2, never a violation)
    pub harness_error: Option<String>,
    /// facts about the run that narrow a violation's signature (see run.rs): set by the executor, never read by an oracle
    pub tags: BTreeSet<&'static str>,
    /// compact tag of the last byzantine mutation handed to each replica (class:chunk type), for signatures
    pub last_mutation: BTreeMap<usize, String>,
    /// the packet most recently handed to a replica (so that an oracle can repeat the call on a twin)
    pub last_packet: Option<Packet>,
}

pub fn new_doc(enc: Enc, actor: &[u8]) -> AutoCommit {
    AutoCommit::new_with_encoding(enc.to_am()).with_actor(ActorId::from(actor))
}

impl World {
    pub fn new(cfg: Cfg) -> World {
        let mut reps = Vec::new();
        for i in 0..cfg.replicas as usize {
            let actor = cfg.actors[i].clone();
            reps.push(Replica::new(new_doc(cfg.enc, &actor), actor));
        }
        World {
            cfg,
            reps,
            reg: Registry::default(),
            links: BTreeMap::new(),
            sessions: BTreeMap::new(),
            pool: vec![PoolObj {
                id: ROOT,
                typ: OType::Map,
                creator: usize::MAX,
            }],
            head_sets: vec![vec![]],
            step: 0,
            stats: Stats::default(),
            spare_next: 0,
            interleaving: crate::prng::Fnv::new(),
            harness_error: None,
            tags: BTreeSet::new(),
            last_mutation: BTreeMap::new(),
            last_packet: None,
        }
    }

    pub fn n(&self) -> usize {
        self.reps.len()
    }

    pub fn rsel(&self, r: u8) -> usize {
        r as usize % self.reps.len()
    }

    fn next_spare_actor(&mut self) -> Vec<u8> {
        let a = if self.cfg.spare_actors.is_empty() {
            vec![0x77, self.spare_next as u8, 1]
        } else {
            let i = self.spare_next % self.cfg.spare_actors.len();
            let mut a = self.cfg.spare_actors[i].clone();
            let round = self.spare_next / self.cfg.spare_actors.len();
            if round > 0 {
                a.push(round as u8);
            }
            a
        };
        self.spare_next += 1;
        a
    }

    // ---------------------------------------------------------------------------------------
    // registry harvest

    /// commit whatever is pending on replica r (harness-driven, deterministic time)
    pub fn commit_pending(&mut self, r: usize) -> Option<Hash> {
        if self.reps[r].doc.pending_ops() == 0 {
            return None;
        }
        let rep = &mut self.reps[r];
        rep.clock += 1;
        let h = rep.doc.commit_with(CommitOptions::default().with_time(rep.clock));
        if let (Some(h), true) = (h, rep.isolated.is_some()) {
            rep.isolated = Some(vec![h.0]);
        }
        self.harvest(r);
        h.map(|h| h.0)
    }

    /// learn what replica r's document now reports as applied; register new changes
    pub fn harvest(&mut self, r: usize) -> Vec<Hash> {
        let step = self.step;
        let rep = &mut self.reps[r];
        if rep.doc.pending_ops() > 0 {
            // never harvest with an open transaction: get_changes would auto-commit
            return vec![];
        }
        // `document()` is the unscoped view: under isolation AutoCommit::get_heads reports the isolation heads
        let heads = rep.doc.document().get_heads();
        if heads == rep.last_heads {
            return vec![];
        }
        let new = rep.doc.document().get_changes(&rep.last_heads);
        rep.last_heads = heads;
        let mut fresh = Vec::new();
        for ch in new {
            let h = ch.hash().0;
            if rep.known.insert(h) {
                fresh.push(h);
            }
            if !self.reg.contains(&h) {
                let mc = convert_change(&ch, step, r);
                self.reg.insert(mc);
                rep.delivered.insert(h);
            }
        }
        let hs = from_hashes(&rep.last_heads);
        if !self.head_sets.contains(&hs) && self.head_sets.len() < 64 {
            self.head_sets.push(hs);
        }
        fresh
    }

    /// recompute `known` from scratch (after restart / fork)
    pub fn reharvest(&mut self, r: usize) {
        let step = self.step;
        let rep = &mut self.reps[r];
        rep.known.clear();
        rep.last_heads = rep.doc.document().get_heads();
        for ch in rep.doc.document().get_changes(&[]) {
            let h = ch.hash().0;
            rep.known.insert(h);
            if !self.reg.contains(&h) {
                let mc = convert_change(&ch, step, r);
                self.reg.insert(mc);
            }
        }
        rep.delivered = rep.known.clone();
    }

    // ---------------------------------------------------------------------------------------
    // selectors

    pub fn present(&self, r: usize, id: &ObjId) -> bool {
        self.reps[r].doc.object_type(id).is_ok()
    }

    fn pick_obj(&self, r: usize, sel: ObjSel, want: &[OType]) -> Option<(ObjId, Option<OType>)> {
        match sel {
            ObjSel::Root => {
                if want.contains(&OType::Map) {
                    Some((ROOT, Some(OType::Map)))
                } else {
                    None
                }
            }
            ObjSel::Known(n) => {
                let cands: Vec<&PoolObj> = self
                    .pool
                    .iter()
                    .filter(|p| want.contains(&p.typ) && self.present(r, &p.id))
                    .collect();
                if cands.is_empty() {
                    None
                } else {
                    let p = cands[n as usize % cands.len()];
                    Some((p.id.clone(), Some(p.typ)))
                }
            }
            ObjSel::Any(n) => {
                let p = &self.pool[n as usize % self.pool.len()];
                let t = self.reps[r].doc.object_type(&p.id).ok().map(OType::from_am);
                Some((p.id.clone(), t))
            }
        }
    }

    fn key_of(&self, k: u32) -> String {
        let n = (self.cfg.keys.max(1) as usize).min(KEYS.len());
        KEYS[k as usize % n].to_string()
    }

    fn sanitize(&self, v: Sv, seq: bool) -> Sv {
        if seq && !self.cfg.counters_in_seqs {
            if let Sv::Counter(c) = v {
                return Sv::Int(c);
            }
        }
        v
    }

    /// turn an abstract edit into a concrete call against replica r (None = precondition not met)
    pub fn resolve(&self, r: usize, op: &EditOp) -> Option<(Call, Option<OType>)> {
        let doc = &self.reps[r].doc;
        let any = [OType::Map, OType::Table, OType::List, OType::Text];
        let maps_and_lists = [OType::Map, OType::Table, OType::List];
        let seqs = [OType::List, OType::Text];
        let prop_for = |obj: &ObjId, t: Option<OType>, key: u32, insert: bool| -> PropK {
            match t {
                Some(OType::List) | Some(OType::Text) => {
                    let len = doc.length(obj);
                    if insert {
                        PropK::Idx(key as usize % (len + 1))
                    } else if len == 0 {
                        PropK::Idx(0)
                    } else {
                        PropK::Idx(key as usize % len)
                    }
                }
                _ => PropK::Key(self.key_of(key)),
            }
        };
        Some(match op {
            EditOp::Put { obj, key, val } => {
                // one put in eight may land on a text object: put(text, i, "xyz") replaces one element by a string of another
                // width, and two replicas doing so concurrently leave a conflicted element whose winner and losers differ in
                // width - the prior state the index arithmetic of splice/delete/cursors has to get right (C03, C24, C26)
                // (swarm: in one run of four every second put goes to a text object if there is one, so that some runs are
                // rich in such conflicts)
                let text_rich = self.cfg.p1 % 4 == 1;
                let (o, t) = if text_rich && (*key >> 9) % 2 == 0 {
                    let sel = if matches!(obj, ObjSel::Root) { ObjSel::Known(*key >> 3) } else { *obj };
                    self.pick_obj(r, sel, &[OType::Text]).or_else(|| self.pick_obj(r, *obj, &maps_and_lists))?
                } else if (*key >> 9) % 8 == 0 {
                    self.pick_obj(r, *obj, &any)?
                } else {
                    self.pick_obj(r, *obj, &maps_and_lists)?
                };
                let mut p = prop_for(&o, t, *key, false);
                if t == Some(OType::Text) && *key % 3 != 0 {
                    // a per-run hot spot, so that different replicas hit the same element concurrently
                    let len = doc.length(&o);
                    p = PropK::Idx(if len == 0 { 0 } else { (self.cfg.p2 as usize % 3).min(len - 1) });
                }
                let seq = matches!(p, PropK::Idx(_));
                (
                    Call::Put {
                        obj: o,
                        prop: p,
                        val: self.sanitize(val.to_sv(), seq),
                    },
                    t,
                )
            }
            EditOp::PutObj { obj, key, ty } => {
                let (o, t) = self.pick_obj(r, *obj, &maps_and_lists)?;
                let p = prop_for(&o, t, *key, false);
                (
                    Call::PutObj {
                        obj: o,
                        prop: p,
                        ty: ty.to_otype(),
                    },
                    t,
                )
            }
            EditOp::Insert { obj, idx, val } => {
                let (o, t) = self.pick_obj(r, *obj, &[OType::List])?;
                let len = doc.length(&o);
                (
                    Call::Insert {
                        obj: o,
                        idx: *idx as usize % (len + 1),
                        val: self.sanitize(val.to_sv(), true),
                    },
                    t,
                )
            }
            EditOp::InsertObj { obj, idx, ty } => {
                let (o, t) = self.pick_obj(r, *obj, &[OType::List])?;
                let len = doc.length(&o);
                (
                    Call::InsertObj {
                        obj: o,
                        idx: *idx as usize % (len + 1),
                        ty: ty.to_otype(),
                    },
                    t,
                )
            }
            EditOp::Delete { obj, key } => {
                let (o, t) = self.pick_obj(r, *obj, &any)?;
                let p = prop_for(&o, t, *key, false);
                (Call::Delete { obj: o, prop: p }, t)
            }
            EditOp::Inc { obj, key, by } => {
                let (o, t) = self.pick_obj(r, *obj, &maps_and_lists)?;
                let p = prop_for(&o, t, *key, false);
                if !self.cfg.inc_on_conflicted_counters {
                    let n = doc.get_all(&o, p.to_prop()).map(|v| v.len()).unwrap_or(0);
                    if n > 1 {
                        return None;
                    }
                }
                (Call::Inc { obj: o, prop: p, by: *by }, t)
            }
            EditOp::SpliceText { obj, pos, del, text } => {
                let (o, t) = self.pick_obj(r, *obj, &[OType::Text])?;
                let len = doc.length(&o);
                // one splice in four goes to the run's hot index (see Put): concurrent inserts at one position (RGA sibling
                // order), deletes of an element another replica has just overwritten
                let pos = if (*pos >> 12) % 4 == 0 { (self.cfg.p2 as usize % 3).min(len) } else { *pos as usize % (len + 1) };
                let del = (*del as usize).min(len - pos);
                (
                    Call::SpliceText {
                        obj: o,
                        pos,
                        del: del as isize,
                        text: text.clone(),
                    },
                    t,
                )
            }
            EditOp::Splice { obj, pos, del, vals } => {
                let (o, t) = self.pick_obj(r, *obj, &[OType::List])?;
                let len = doc.length(&o);
                let pos = *pos as usize % (len + 1);
                let del = (*del as usize).min(len - pos);
                (
                    Call::Splice {
                        obj: o,
                        pos,
                        del: del as isize,
                        vals: vals.iter().map(|v| self.sanitize(v.to_sv(), true)).collect(),
                    },
                    t,
                )
            }
            EditOp::Mark { obj, start, len, name, val, expand } => {
                let (o, t) = self.pick_obj(r, *obj, &[OType::Text])?;
                let n = doc.length(&o);
                let s = *start as usize % (n + 1);
                let e = s + (*len as usize % (n - s + 1));
                (
                    Call::Mark {
                        obj: o,
                        start: s,
                        end: e,
                        name: MARK_NAMES[*name as usize % MARK_NAMES.len()].to_string(),
                        val: val.to_sv(),
                        expand: *expand % 4,
                    },
                    t,
                )
            }
            EditOp::Unmark { obj, start, len, name, expand } => {
                let (o, t) = self.pick_obj(r, *obj, &[OType::Text])?;
                let n = doc.length(&o);
                let s = *start as usize % (n + 1);
                let e = s + (*len as usize % (n - s + 1));
                (
                    Call::Unmark {
                        obj: o,
                        start: s,
                        end: e,
                        name: MARK_NAMES[*name as usize % MARK_NAMES.len()].to_string(),
                        expand: *expand % 4,
                    },
                    t,
                )
            }
            EditOp::SplitBlock { obj, idx } => {
                let (o, t) = self.pick_obj(r, *obj, &[OType::Text])?;
                let n = doc.length(&o);
                (
                    Call::SplitBlock {
                        obj: o,
                        idx: *idx as usize % (n + 1),
                    },
                    t,
                )
            }
            EditOp::JoinBlock { obj, idx } => {
                let (o, t) = self.pick_obj(r, *obj, &[OType::Text])?;
                let n = doc.length(&o);
                (
                    Call::JoinBlock {
                        obj: o,
                        idx: *idx as usize % (n + 1),
                    },
                    t,
                )
            }
            EditOp::ReplaceBlock { obj, idx } => {
                let (o, t) = self.pick_obj(r, *obj, &[OType::Text])?;
                let n = doc.length(&o);
                (
                    Call::ReplaceBlock {
                        obj: o,
                        idx: *idx as usize % (n + 1),
                    },
                    t,
                )
            }
            EditOp::UpdateText { obj, text } => {
                let (o, t) = self.pick_obj(r, *obj, &[OType::Text])?;
                (
                    Call::UpdateText {
                        obj: o,
                        text: text.clone(),
                    },
                    t,
                )
            }
        })
    }

    /// "confused" resolution: like resolve but without kind filters (ObjSel::Any) — used by C03/C37
    pub fn apply_call(doc: &mut AutoCommit, call: &Call) -> Result<Option<ObjId>, String> {
        fn expand_of(e: u8) -> automerge::marks::ExpandMark {
            match e % 4 {
                0 => automerge::marks::ExpandMark::Before,
                1 => automerge::marks::ExpandMark::After,
                2 => automerge::marks::ExpandMark::Both,
                _ => automerge::marks::ExpandMark::None,
            }
        }
        let r: Result<Option<ObjId>, automerge::AutomergeError> = match call {
            Call::Put { obj, prop, val } => doc.put(obj, prop.to_prop(), val.to_am()).map(|_| None),
            Call::PutObj { obj, prop, ty } => doc.put_object(obj, prop.to_prop(), ty.to_am()).map(Some),
            Call::Insert { obj, idx, val } => doc.insert(obj, *idx, val.to_am()).map(|_| None),
            Call::InsertObj { obj, idx, ty } => doc.insert_object(obj, *idx, ty.to_am()).map(Some),
            Call::Delete { obj, prop } => doc.delete(obj, prop.to_prop()).map(|_| None),
            Call::Inc { obj, prop, by } => doc.increment(obj, prop.to_prop(), *by).map(|_| None),
            Call::SpliceText { obj, pos, del, text } => doc.splice_text(obj, *pos, *del, text).map(|_| None),
            Call::Splice { obj, pos, del, vals } => doc
                .splice(
                    obj,
                    *pos,
                    *del,
                    vals.iter().map(|v| automerge::hydrate::Value::Scalar(v.to_am())),
                )
                .map(|_| None),
            Call::Mark { obj, start, end, name, val, expand } => doc
                .mark(
                    obj,
                    automerge::marks::Mark::new(name.clone(), val.to_am(), *start, *end),
                    expand_of(*expand),
                )
                .map(|_| None),
            Call::Unmark { obj, start, end, name, expand } => {
                doc.unmark(obj, name, *start, *end, expand_of(*expand)).map(|_| None)
            }
            Call::SplitBlock { obj, idx } => doc.split_block(obj, *idx).map(Some),
            Call::JoinBlock { obj, idx } => doc.join_block(obj, *idx).map(|_| None),
            Call::ReplaceBlock { obj, idx } => doc.replace_block(obj, *idx).map(Some),
            Call::UpdateText { obj, text } => doc.update_text(obj, text).map(|_| None),
        };
        r.map_err(|e| format!("{e}"))
    }

    // ---------------------------------------------------------------------------------------
    // the executor

    pub fn exec(&mut self, ev: &Ev) -> Outcome {
        self.step += 1;
        self.interleaving.str(ev.kind());
        self.interleaving.u64(ev.replica() as u64);
        crate::monitor::set_context(self.step, ev.kind());
        let out = self.exec_inner(ev);
        if !matches!(out, Outcome::Nop) {
            self.stats.bump(&format!("ev.{}", ev.kind()));
        }
        out
    }

    fn exec_inner(&mut self, ev: &Ev) -> Outcome {
        match ev {
            Ev::Edit { r, op } => {
                let r = self.rsel(*r);
                let (call, tt) = match self.resolve(r, op) {
                    Some(c) => c,
                    None => return Outcome::Nop,
                };
                if tt == Some(OType::Text) {
                    let obj = call.obj();
                    // judged at the replica's full heads: under isolation plain reads are scoped and may not show the conflict
                    let full: Vec<automerge::ChangeHash> = self.reg.heads_of(&self.reps[r].known).into_iter().map(automerge::ChangeHash).collect();
                    // (a put on a text element under isolation is itself concurrent with whatever lies outside the scope)
                    if self.reps[r].isolated.is_some() && (matches!(&call, Call::Put { .. }) || Self::text_has_conflicted_element(&self.reps[r].doc, obj, self.cfg.enc, &full)) {
                        self.tags.insert("isolated-edit-of-conflicted-text");
                    }
                    if matches!(&call, Call::Put { val: Sv::Counter(_), .. } | Call::Insert { val: Sv::Counter(_), .. }) {
                        self.tags.insert("counter-in-text");
                    }
                }
                let result = World::apply_call(&mut self.reps[r].doc, &call);
                if let Ok(Some(id)) = &result {
                    let ty = match &call {
                        Call::PutObj { ty, .. } | Call::InsertObj { ty, .. } => *ty,
                        _ => OType::Map,
                    };
                    if self.pool.len() < 200 {
                        self.pool.push(PoolObj {
                            id: id.clone(),
                            typ: ty,
                            creator: r,
                        });
                    }
                }
                if result.is_err() {
                    self.stats.bump("edit.err");
                }
                Outcome::Edit {
                    r,
                    call,
                    result,
                    target_type: tt,
                }
            }
            Ev::Commit { r, msg, dt } => {
                let r = self.rsel(*r);
                let rep = &mut self.reps[r];
                if rep.doc.pending_ops() == 0 {
                    return Outcome::Nop;
                }
                rep.clock += *dt;
                let mut o = CommitOptions::default().with_time(rep.clock);
                if let Some(m) = msg {
                    o = o.with_message(m.clone());
                }
                let h = rep.doc.commit_with(o).map(|h| h.0);
                if let (Some(h), true) = (h, rep.isolated.is_some()) {
                    rep.isolated = Some(vec![h]);
                }
                self.harvest(r);
                Outcome::Committed { r, hash: h }
            }
            Ev::EmptyChange { r, dt } => {
                let r = self.rsel(*r);
                if self.reps[r].isolated.is_some() {
                    return Outcome::Nop;
                }
                self.commit_pending(r);
                let rep = &mut self.reps[r];
                rep.clock += *dt;
                let h = rep.doc.empty_change(CommitOptions::default().with_time(rep.clock));
                self.harvest(r);
                Outcome::Committed { r, hash: Some(h.0) }
            }
            Ev::Rollback { r } => {
                let r = self.rsel(*r);
                if self.reps[r].doc.pending_ops() == 0 {
                    return Outcome::Nop;
                }
                let n = self.reps[r].doc.rollback();
                self.purge_pool(r);
                Outcome::RolledBack { r, ops: n }
            }
            Ev::Send { from, to, what, enc, batch } => {
                let (f, t) = (self.rsel(*from), self.rsel(*to));
                if f == t {
                    return Outcome::Nop;
                }
                self.commit_pending(f);
                if self.reps[f].isolated.is_some() {
                    return Outcome::Nop;
                }
                let mut pk = match self.make_packet(f, t, *what, *enc, *batch) {
                    Some(p) => p,
                    None => return Outcome::Nop,
                };
                pk.tainted = self.reps[f].tainted;
                let n = pk.hashes.len();
                self.links.entry((f as u8, t as u8)).or_default().push(pk);
                Outcome::Sent { from: f, to: t, n }
            }
            Ev::Deliver { from, to, pick } => {
                let (f, t) = (self.rsel(*from), self.rsel(*to));
                // prefer the named link; otherwise any non-empty link into `to`; otherwise any non-empty link
                let nonempty: Vec<(u8, u8)> = self.links.iter().filter(|(_, q)| !q.is_empty()).map(|(k, _)| *k).collect();
                if nonempty.is_empty() {
                    return Outcome::Nop;
                }
                let key = if nonempty.contains(&(f as u8, t as u8)) {
                    (f as u8, t as u8)
                } else {
                    let into: Vec<&(u8, u8)> = nonempty.iter().filter(|k| k.1 as usize == t).collect();
                    if !into.is_empty() {
                        *into[f % into.len()]
                    } else {
                        nonempty[(f * 8 + t) % nonempty.len()]
                    }
                };
                let t = key.1 as usize;
                let q = self.links.get_mut(&key).unwrap();
                let i = *pick as usize % q.len();
                let pk = q.remove(i);
                if i > 0 {
                    self.stats.bump("fault.reorder");
                }
                self.deliver(t, pk)
            }
            Ev::DupPkt { from, to, pick } => {
                let (f, t) = (self.rsel(*from), self.rsel(*to));
                let q = match self.links.get_mut(&(f as u8, t as u8)) {
                    Some(q) if !q.is_empty() && q.len() < 32 => q,
                    _ => return Outcome::Nop,
                };
                let i = *pick as usize % q.len();
                let pk = q[i].clone();
                q.push(pk);
                self.stats.bump("fault.dup");
                Outcome::Other
            }
            Ev::DropPkt { from, to, pick } => {
                let (f, t) = (self.rsel(*from), self.rsel(*to));
                let q = match self.links.get_mut(&(f as u8, t as u8)) {
                    Some(q) if !q.is_empty() => q,
                    _ => return Outcome::Nop,
                };
                let i = *pick as usize % q.len();
                q.remove(i);
                self.stats.bump("fault.loss");
                Outcome::Other
            }
            Ev::Merge { from, to } => {
                let (f, t) = (self.rsel(*from), self.rsel(*to));
                if f == t {
                    return Outcome::Nop;
                }
                self.commit_pending(f);
                self.commit_pending(t);
                if self.reps[f].isolated.is_some() || self.reps[t].isolated.is_some() {
                    return Outcome::Nop;
                }
                let (a, b) = two_mut(&mut self.reps, t, f);
                if b.tainted {
                    a.tainted = true;
                }
                let res = a.doc.merge(&mut b.doc).map(|_| ()).map_err(|e| format!("{e}"));
                if res.is_ok() {
                    let add: Vec<Hash> = b.known.iter().cloned().collect();
                    a.delivered.extend(add);
                }
                self.harvest(t);
                Outcome::Merged { from: f, to: t, result: res }
            }
            Ev::Fork { r, same_actor } => {
                let r = self.rsel(*r);
                if self.reps.len() >= 8 {
                    return Outcome::Nop;
                }
                self.commit_pending(r);
                if self.reps[r].isolated.is_some() {
                    return Outcome::Nop;
                }
                let actor = if *same_actor {
                    self.stats.bump("fault.actor_reuse");
                    self.reps[r].actor.clone()
                } else {
                    self.next_spare_actor()
                };
                let doc = self.reps[r].doc.fork().with_actor(ActorId::from(actor.as_slice()));
                let mut nr = Replica::new(doc, actor);
                nr.clock = self.reps[r].clock;
                self.reps.push(nr);
                let new = self.reps.len() - 1;
                self.reharvest(new);
                self.reps[new].tainted = self.reps[r].tainted;
                // a fork is a clone: it also carries the parent's held-back changes
                let held: Vec<Hash> = self.reps[r].delivered.difference(&self.reps[r].known).cloned().collect();
                self.reps[new].delivered.extend(held);
                Outcome::Forked { r, new }
            }
            Ev::ForkAt { r, heads } => {
                let r = self.rsel(*r);
                if self.reps.len() >= 8 {
                    return Outcome::Nop;
                }
                self.commit_pending(r);
                if self.reps[r].isolated.is_some() {
                    return Outcome::Nop;
                }
                let hs = match self.pick_heads(r, *heads) {
                    Some(h) => h,
                    None => return Outcome::Nop,
                };
                let actor = self.next_spare_actor();
                match self.reps[r].doc.fork_at(&to_hashes(&hs)) {
                    Ok(d) => {
                        let doc = d.with_actor(ActorId::from(actor.as_slice()));
                        let mut nr = Replica::new(doc, actor);
                        nr.clock = self.reps[r].clock;
                        self.reps.push(nr);
                        let new = self.reps.len() - 1;
                        self.reharvest(new);
                        Outcome::Forked { r, new }
                    }
                    Err(_) => Outcome::Other,
                }
            }
            Ev::SetActor { r, actor } => {
                let r = self.rsel(*r);
                self.commit_pending(r);
                let _ = actor;
                let a = self.next_spare_actor();
                self.reps[r].doc.set_actor(ActorId::from(a.as_slice()));
                self.reps[r].actor = a;
                Outcome::Other
            }
            Ev::Isolate { r, heads } => {
                let r = self.rsel(*r);
                self.commit_pending(r);
                if self.reps[r].isolated.is_some() {
                    return Outcome::Nop;
                }
                let hs = match self.pick_heads(r, *heads) {
                    Some(h) => h,
                    None => return Outcome::Nop,
                };
                self.tags.insert("isolation-used");
                self.reps[r].doc.isolate(&to_hashes(&hs));
                self.reps[r].isolated = Some(hs);
                Outcome::Other
            }
            Ev::Integrate { r } => {
                let r = self.rsel(*r);
                if self.reps[r].isolated.is_none() {
                    return Outcome::Nop;
                }
                // commit under isolation first so that the isolated chain is complete
                self.commit_pending(r);
                self.reps[r].doc.integrate();
                self.reps[r].isolated = None;
                self.harvest(r);
                Outcome::Other
            }
            Ev::Save { r, deflate, orphans } => {
                let r = self.rsel(*r);
                self.commit_pending(r);
                if self.reps[r].isolated.is_some() {
                    return Outcome::Nop;
                }
                let rep = &mut self.reps[r];
                let bytes = rep.doc.save_with_options(automerge::SaveOptions {
                    deflate: *deflate,
                    retain_orphans: *orphans,
                });
                let held: BTreeSet<Hash> = if *orphans {
                    rep.delivered.difference(&rep.known).cloned().collect()
                } else {
                    BTreeSet::new()
                };
                rep.disk.current = vec![Piece {
                    bytes,
                    kind: PieceKind::Save,
                    writer_set: rep.known.clone(),
                    orphans: held,
                }];
                Outcome::Saved { r }
            }
            Ev::SaveInc { r } => {
                let r = self.rsel(*r);
                self.commit_pending(r);
                if self.reps[r].isolated.is_some() {
                    return Outcome::Nop;
                }
                let rep = &mut self.reps[r];
                let bytes = rep.doc.save_incremental();
                if bytes.is_empty() && !rep.disk.current.is_empty() {
                    return Outcome::Nop;
                }
                if rep.disk.current.is_empty() {
                    // first write of a file is always a full save
                    let bytes = rep.doc.save();
                    let held: BTreeSet<Hash> = rep.delivered.difference(&rep.known).cloned().collect();
                    rep.disk.current.push(Piece {
                        bytes,
                        kind: PieceKind::Save,
                        writer_set: rep.known.clone(),
                        orphans: held,
                    });
                } else {
                    rep.disk.current.push(Piece {
                        bytes,
                        kind: PieceKind::Incremental,
                        writer_set: rep.known.clone(),
                        orphans: BTreeSet::new(),
                    });
                }
                Outcome::Saved { r }
            }
            Ev::SaveAfter { .. } => Outcome::Nop,
            Ev::Fsync { r } => {
                let r = self.rsel(*r);
                let d = &mut self.reps[r].disk;
                if d.current.is_empty() {
                    return Outcome::Nop;
                }
                if !d.durable.is_empty() && d.snapshots.len() < 8 {
                    let old = d.durable.clone();
                    d.snapshots.push(old);
                }
                d.durable = d.current.clone();
                Outcome::Other
            }
            Ev::Crash { r, kind, opts } => {
                let r = self.rsel(*r);
                self.crash_restart(r, *kind, *opts)
            }
            Ev::Connect { a, b, restore_a, restore_b, ro_a, ro_b } => {
                let (x, y) = (self.rsel(*a), self.rsel(*b));
                if x == y {
                    return Outcome::Nop;
                }
                let (lo, hi) = (x.min(y), x.max(y));
                if self.sessions.contains_key(&(lo as u8, hi as u8)) {
                    return Outcome::Nop;
                }
                let (rlo, rhi, rolo, rohi) = if x < y {
                    (*restore_a, *restore_b, *ro_a, *ro_b)
                } else {
                    (*restore_b, *restore_a, *ro_b, *ro_a)
                };
                let mk = |w: &mut World, me: usize, peer: usize, restore: bool, ro: bool| {
                    let mut st = automerge::sync::State::new();
                    if restore {
                        if let Some(b) = w.reps[me].sync_store.get(&(peer as u8)) {
                            if let Ok(s) = automerge::sync::State::decode(b) {
                                st = s;
                                w.stats.bump("sync.state_restored");
                            }
                        }
                    }
                    if ro {
                        st.set_read_only(true);
                    }
                    st
                };
                let s0 = mk(self, lo, hi, rlo, rolo);
                let s1 = mk(self, hi, lo, rhi, rohi);
                self.sessions.insert(
                    (lo as u8, hi as u8),
                    Session {
                        state: [s0, s1],
                        queue: [VecDeque::new(), VecDeque::new()],
                        msgs_sent: 0,
                    },
                );
                Outcome::Other
            }
            Ev::Gen { from, to } => {
                let (f, t) = (self.rsel(*from), self.rsel(*to));
                self.sync_gen(f, t)
            }
            Ev::Recv { from, to } => {
                let (f, t) = (self.rsel(*from), self.rsel(*to));
                self.sync_recv(f, t)
            }
            Ev::Disconnect { a, b, persist } => {
                let (x, y) = (self.rsel(*a), self.rsel(*b));
                let (lo, hi) = (x.min(y), x.max(y));
                let s = match self.sessions.remove(&(lo as u8, hi as u8)) {
                    Some(s) => s,
                    None => return Outcome::Nop,
                };
                let lost = s.queue[0].len() + s.queue[1].len();
                if lost > 0 {
                    self.stats.add("fault.inflight_lost", lost as u64);
                }
                self.stats.bump("fault.disconnect");
                if *persist {
                    self.reps[lo].sync_store.insert(hi as u8, s.state[0].encode());
                    self.reps[hi].sync_store.insert(lo as u8, s.state[1].encode());
                }
                Outcome::Other
            }
            Ev::SetReadOnly { r, peer, ro } => {
                let (x, y) = (self.rsel(*r), self.rsel(*peer));
                let (lo, hi) = (x.min(y), x.max(y));
                if x == y {
                    return Outcome::Nop;
                }
                match self.sessions.get_mut(&(lo as u8, hi as u8)) {
                    Some(s) => {
                        let side = if x == lo { 0 } else { 1 };
                        s.state[side].set_read_only(*ro);
                        Outcome::Other
                    }
                    None => Outcome::Nop,
                }
            }
            Ev::Probe { .. } => Outcome::Other,
            Ev::DeliverCorrupt { from, to, pick, m } => {
                let (f, t) = (self.rsel(*from), self.rsel(*to));
                let nonempty: Vec<(u8, u8)> = self.links.iter().filter(|(_, q)| !q.is_empty()).map(|(k, _)| *k).collect();
                if nonempty.is_empty() {
                    return Outcome::Nop;
                }
                let key = if nonempty.contains(&(f as u8, t as u8)) { (f as u8, t as u8) } else { nonempty[(f * 8 + t) % nonempty.len()] };
                let t = key.1 as usize;
                let q = self.links.get_mut(&key).unwrap();
                let i = *pick as usize % q.len();
                let mut pk = q.remove(i);
                let bi = (m.seed as usize / 7) % pk.blobs.len();
                let (mutant, desc) = crate::mutate::mutate_chunks(&pk.blobs[bi], *m);
                pk.blobs[bi] = mutant;
                pk.hashes.clear();
                self.last_mutation.insert(t, crate::mutate::tag_of(m.class, &desc));
                self.stats.bump(&format!("fault.corrupt.{:?}", m.class));
                self.reps[t].tainted = true;
                crate::monitor::set_subcontext(&format!("{}: {desc}", if pk.stream { "load_incremental" } else { "apply_changes" }));
                let before = self.reps[t].known.len();
                let out = self.deliver(t, pk);
                let result = match out {
                    Outcome::Delivered { result, .. } => result,
                    _ => Ok(()),
                };
                if result.is_ok() {
                    self.stats.bump("probe.corrupt_input_accepted");
                }
                Outcome::Byz {
                    r: t,
                    what: "deliver_corrupt".into(),
                    desc,
                    result,
                    changed: self.reps[t].known.len() != before,
                }
            }
            Ev::RecvCorrupt { from, to, m } => {
                let (f, t) = (self.rsel(*from), self.rsel(*to));
                let (key, _fs, ts) = match self.session_sides(f, t) {
                    Some(x) => x,
                    None => return Outcome::Nop,
                };
                if self.sessions[&key].queue[ts].is_empty() {
                    return Outcome::Nop;
                }
                self.commit_pending(t);
                if self.reps[t].isolated.is_some() {
                    return Outcome::Nop;
                }
                let s = self.sessions.get_mut(&key).unwrap();
                let bytes = s.queue[ts].pop_front().unwrap();
                let (mutant, desc) = crate::mutate::mutate_sync(&bytes, *m);
                self.stats.bump(&format!("fault.corrupt_sync.{:?}", m.class));
                self.last_mutation.insert(t, format!("{:?}:sync", m.class));
                self.reps[t].tainted = true;
                crate::monitor::set_subcontext(&format!("sync message: {desc}"));
                let before = self.reps[t].known.len();
                let result = match automerge::sync::Message::decode(&mutant) {
                    Ok(msg) => {
                        self.stats.bump("probe.corrupt_sync_decoded");
                        let r = self.reps[t].doc.sync().receive_sync_message(&mut s.state[ts], msg).map_err(|e| format!("{e}"));
                        // and the reply the peer would now generate
                        crate::monitor::set_subcontext(&format!("generate after sync message: {desc}"));
                        let _ = self.reps[t].doc.sync().generate_sync_message(&mut s.state[ts]);
                        r
                    }
                    Err(e) => Err(format!("decode: {e}")),
                };
                self.harvest(t);
                Outcome::Byz {
                    r: t,
                    what: "recv_corrupt".into(),
                    desc,
                    result,
                    changed: self.reps[t].known.len() != before,
                }
            }
            Ev::CrashCorrupt { r, m, opts } => {
                let r = self.rsel(*r);
                if self.reps[r].disk.current.is_empty() || self.reps[r].isolated.is_some() {
                    return Outcome::Nop;
                }
                self.reps[r].tainted = true;
                self.stats.bump(&format!("fault.corrupt_disk.{:?}", m.class));
                self.crash_restart_with(r, CrashKind::Clean, *opts, Some(*m))
            }
            Ev::IdFuzz { r, what, sel, m } => {
                let r = self.rsel(*r);
                self.id_fuzz(r, *what, *sel, *m)
            }
        }
    }

    /// decoders of small encodings fed mutated input (C15/C19/C23)
    fn id_fuzz(&mut self, r: usize, what: u8, sel: u32, m: crate::mutate::Mutation) -> Outcome {
        use crate::mutate::mutate_small;
        let pool_id = self.pool[sel as usize % self.pool.len()].id.clone();
        let lossy = |b: &[u8]| String::from_utf8_lossy(b).to_string();
        let doc = &mut self.reps[r].doc;
        let mut desc = String::new();
        let mut accepted = false;
        match what % 13 {
            0 => {
                let b = mutate_small(&pool_id.to_bytes(), m);
                desc = format!("ObjId::try_from({})", hex::encode(&b));
                crate::monitor::set_subcontext(&desc);
                if let Ok(id) = ObjId::try_from(b.as_slice()) {
                    accepted = true;
                    let _ = doc.object_type(&id);
                    let _ = doc.keys(&id).count();
                    let _ = doc.length(&id);
                    let _ = doc.get(&id, "a");
                    let _ = doc.get(&id, 0usize);
                    let _ = doc.text(&id);
                    let _ = doc.parents(&id).map(|p| p.count());
                }
            }
            1 => {
                let s = lossy(&mutate_small(pool_id.to_string().as_bytes(), m));
                desc = format!("import({s:?})");
                crate::monitor::set_subcontext(&desc);
                accepted |= doc.import(&s).is_ok();
                crate::monitor::set_subcontext(&format!("import_obj({s:?})"));
                accepted |= doc.import_obj(&s).is_ok();
            }
            2 | 3 => {
                // a cursor from some sequence object of this replica
                let seqs: Vec<ObjId> = self.pool.iter().filter(|p| p.typ.is_seq()).map(|p| p.id.clone()).filter(|id| doc.object_type(id).is_ok() && doc.length(id) > 0).collect();
                if seqs.is_empty() {
                    return Outcome::Nop;
                }
                let obj = &seqs[sel as usize % seqs.len()];
                let pos = (sel as usize / 3) % doc.length(obj);
                let cur = match doc.get_cursor(obj, pos, None) {
                    Ok(c) => c,
                    Err(_) => return Outcome::Nop,
                };
                if what % 13 == 2 {
                    let b = mutate_small(&cur.to_bytes(), m);
                    desc = format!("Cursor::try_from(bytes {})", hex::encode(&b));
                    crate::monitor::set_subcontext(&desc);
                    if let Ok(c) = automerge::Cursor::try_from(b.as_slice()) {
                        accepted = true;
                        let _ = doc.get_cursor_position(obj, &c, None);
                    }
                } else {
                    let s = lossy(&mutate_small(cur.to_string().as_bytes(), m));
                    desc = format!("Cursor::try_from(str {s:?})");
                    crate::monitor::set_subcontext(&desc);
                    if let Ok(c) = automerge::Cursor::try_from(s.as_str()) {
                        accepted = true;
                        let _ = doc.get_cursor_position(obj, &c, None);
                    }
                }
            }
            4 => {
                let s = lossy(&mutate_small(doc.get_actor().to_hex_string().as_bytes(), m));
                desc = format!("ActorId::try_from({s:?})");
                crate::monitor::set_subcontext(&desc);
                accepted = ActorId::try_from(s.as_str()).is_ok();
            }
            5 => {
                let h = doc.get_heads().first().cloned().unwrap_or(ChangeHash([7; 32]));
                let b = mutate_small(&h.0, m);
                desc = format!("ChangeHash::try_from({})", hex::encode(&b));
                crate::monitor::set_subcontext(&desc);
                accepted = ChangeHash::try_from(b.as_slice()).is_ok();
                let s = lossy(&mutate_small(h.to_string().as_bytes(), m));
                crate::monitor::set_subcontext(&format!("ChangeHash::from_str({s:?})"));
                accepted |= s.parse::<ChangeHash>().is_ok();
            }
            6 => {
                let mut st = automerge::sync::State::new();
                st.shared_heads = doc.get_heads();
                let b = mutate_small(&st.encode(), m);
                desc = format!("State::decode({})", hex::encode(&b));
                crate::monitor::set_subcontext(&desc);
                if let Ok(mut s) = automerge::sync::State::decode(&b) {
                    accepted = true;
                    crate::monitor::set_subcontext(&format!("generate_sync_message after {desc}"));
                    let _ = doc.sync().generate_sync_message(&mut s);
                }
            }
            7 => {
                let hashes: Vec<ChangeHash> = self.reps[r].known.iter().take(40).map(|h| ChangeHash(*h)).collect();
                let doc = &mut self.reps[r].doc;
                let mut st = automerge::sync::State::new();
                let bloom_bytes = doc
                    .sync()
                    .generate_sync_message(&mut st)
                    .and_then(|msg| msg.have.first().map(|h| h.bloom.to_bytes()))
                    .unwrap_or_default();
                let b = if bloom_bytes.is_empty() { mutate_small(&[3, 10, 7, 0xff, 0xff, 0xff, 0xff], m) } else { mutate_small(&bloom_bytes, m) };
                desc = format!("BloomFilter::try_from({})", hex::encode(&b[..b.len().min(24)]));
                crate::monitor::set_subcontext(&desc);
                if let Ok(bf) = automerge::sync::BloomFilter::try_from(b.as_slice()) {
                    accepted = true;
                    crate::monitor::set_subcontext(&format!("contains_hash on {desc}"));
                    for h in &hashes {
                        let _ = bf.contains_hash(h);
                    }
                    let _ = bf.contains_hash(&ChangeHash([0; 32]));
                    let _ = bf.to_bytes();
                }
            }
            8 => {
                let b = crate::mutate::mutate_sync(&[0x42, 0, 0, 0, 0], m).0;
                desc = format!("Message::decode({})", hex::encode(&b[..b.len().min(24)]));
                crate::monitor::set_subcontext(&desc);
                accepted = automerge::sync::Message::decode(&b).is_ok();
            }
            9 => {
                let raw = match self.reps[r].known.iter().nth(sel as usize % self.reps[r].known.len().max(1)).and_then(|h| self.reg.get(h)) {
                    Some(c) => c.raw.clone(),
                    None => return Outcome::Nop,
                };
                let (b, d) = crate::mutate::mutate_chunks(&raw, m);
                desc = format!("Change::from_bytes: {d}");
                crate::monitor::set_subcontext(&desc);
                if let Ok(c) = Change::from_bytes(b) {
                    accepted = true;
                    let _ = c.decode();
                    let _ = c.hash();
                }
            }
            10 => {
                let doc = &mut self.reps[r].doc;
                let hs = doc.get_changes(&[]).iter().map(|c| c.hash()).collect::<Vec<_>>();
                let bundle = match doc.bundle(hs) {
                    Ok(b) => b.bytes().to_vec(),
                    Err(_) => return Outcome::Nop,
                };
                let (b, d) = crate::mutate::mutate_chunks(&bundle, m);
                desc = format!("Bundle::try_from: {d}");
                crate::monitor::set_subcontext(&desc);
                if let Ok(bd) = automerge::Bundle::try_from(b.as_slice()) {
                    accepted = true;
                    let _ = bd.to_changes();
                    let _ = bd.deps().len();
                }
            }
            11 => {
                let doc = &mut self.reps[r].doc;
                let bytes = doc.document().save();
                let (b, d) = crate::mutate::mutate_chunks(&bytes, m);
                desc = format!("rescue: {d}");
                crate::monitor::set_subcontext(&desc);
                accepted = automerge::Automerge::rescue(&b).is_ok();
            }
            _ => {
                let doc = &mut self.reps[r].doc;
                let bytes = doc.document().save();
                let (b, d) = crate::mutate::mutate_chunks(&bytes, m);
                desc = format!("load (fresh): {d}");
                crate::monitor::set_subcontext(&desc);
                if let Ok(d2) = automerge::Automerge::load(&b) {
                    accepted = true;
                    let _ = d2.get_heads();
                    let _ = d2.hydrate(None);
                    let _ = d2.save();
                }
            }
        }
        self.stats.bump(&format!("fault.id_fuzz.{}", what % 13));
        if accepted {
            self.stats.bump("probe.fuzzed_small_input_accepted");
        }
        Outcome::Byz {
            r,
            what: "id_fuzz".into(),
            desc,
            result: if accepted { Ok(()) } else { Err("rejected".into()) },
            changed: false,
        }
    }

    /// ids handed out inside a transaction that was rolled back name nothing (and may be reused by later objects)
    fn purge_pool(&mut self, r: usize) {
        let doc = &self.reps[r].doc;
        self.pool.retain(|p| p.creator != r || p.id == ROOT || doc.object_type(&p.id).is_ok());
    }

    /// does some element of the text hold more than one concurrent value?
    pub fn text_has_conflicted_element(doc: &AutoCommit, obj: &ObjId, enc: Enc, heads: &[automerge::ChangeHash]) -> bool {
        let n = doc.length_at(obj, heads);
        let mut i = 0;
        while i < n {
            let vals = doc.get_all_at(obj, i, heads).unwrap_or_default();
            if vals.len() > 1 {
                return true;
            }
            let w = match vals.last() {
                Some((automerge::Value::Scalar(s), _)) => match s.as_ref() {
                    automerge::ScalarValue::Str(st) => enc.width(st),
                    _ => enc.width(crate::model::PLACEHOLDER),
                },
                _ => enc.width(crate::model::PLACEHOLDER),
            };
            i += w.max(1);
        }
        false
    }

    pub fn pick_heads(&self, r: usize, sel: u32) -> Option<Vec<Hash>> {
        // head sets all of whose hashes replica r has applied
        let cands: Vec<&Vec<Hash>> = self
            .head_sets
            .iter()
            .filter(|hs| hs.iter().all(|h| self.reps[r].known.contains(h)))
            .collect();
        // one selector in five names the replica's *current* heads: every heads-taking call has a "heads are current" fast
        // path (clock_at, transaction_args, diff), and a uniform pick from up to 64 recorded head sets almost never hits it
        // at the moment the replica is exactly there
        if sel % 5 == 4 && !self.reps[r].known.is_empty() {
            let mut hs = self.reg.heads_of(&self.reps[r].known);
            hs.sort();
            return Some(hs);
        }
        if cands.is_empty() {
            None
        } else {
            Some(cands[sel as usize % cands.len()].clone())
        }
    }

    fn make_packet(&mut self, f: usize, t: usize, what: SendWhat, enc: WireEnc, batch: bool) -> Option<Packet> {
        let rep = &mut self.reps[f];
        let mut changes: Vec<Change> = match what {
            SendWhat::All => rep.doc.get_changes(&[]),
            SendWhat::SinceLast => {
                let since = rep.sent_heads.get(&(t as u8)).cloned().unwrap_or_default();
                rep.doc.get_changes(&since)
            }
            SendWhat::Subset(k) => {
                let all = rep.doc.get_changes(&[]);
                let mut rng = crate::prng::Rng::new(k as u64 ^ 0x5151);
                let keep_permille = 300 + rng.below(600) as u32;
                let mut v: Vec<Change> = all.into_iter().filter(|_| rng.chance(keep_permille)).collect();
                if rng.bool() {
                    rng.shuffle(&mut v);
                }
                v
            }
        };
        if changes.is_empty() {
            return None;
        }
        if matches!(what, SendWhat::SinceLast | SendWhat::All) {
            let heads = rep.doc.get_heads();
            rep.sent_heads.insert(t as u8, heads);
        }
        let hashes: Vec<Hash> = changes.iter().map(|c| c.hash().0).collect();
        self.stats.bump(&format!("wire.{enc:?}"));
        let pk = match enc {
            WireEnc::Raw => Packet {
                blobs: changes.iter().map(|c| c.raw_bytes().to_vec()).collect(),
                stream: false,
                batch,
                hashes,
                tainted: false,
            },
            WireEnc::Compressed => Packet {
                blobs: changes.iter_mut().map(|c| c.bytes().to_vec()).collect(),
                stream: false,
                batch,
                hashes,
                tainted: false,
            },
            WireEnc::Reencode => Packet {
                blobs: changes
                    .iter()
                    .map(|c| Change::from(c.decode()).raw_bytes().to_vec())
                    .collect(),
                stream: false,
                batch,
                hashes,
                tainted: false,
            },
            WireEnc::Bundle => {
                let hs: Vec<ChangeHash> = changes.iter().map(|c| c.hash()).collect();
                match rep.doc.bundle(hs) {
                    Ok(b) => Packet {
                        blobs: vec![b.bytes().to_vec()],
                        stream: true,
                        batch,
                        hashes,
                        tainted: false,
                    },
                    Err(_) => return None,
                }
            }
            WireEnc::FullSave => {
                // save() retains orphans by default: the stream also carries what the sender holds back
                let all: Vec<Hash> = rep.known.union(&rep.delivered).cloned().collect();
                Packet {
                    blobs: vec![rep.doc.document().save()],
                    stream: true,
                    batch,
                    hashes: all,
                    tainted: false,
                }
            }
        };
        Some(pk)
    }

    /// hand a packet to a document exactly as a receiving application would
    pub fn apply_packet(doc: &mut AutoCommit, pk: &Packet) -> Result<(), String> {
        if pk.stream {
            doc.load_incremental(&pk.blobs[0]).map(|_| ()).map_err(|e| format!("{e}"))
        } else {
            let mut chs = Vec::new();
            for b in &pk.blobs {
                match Change::from_bytes(b.clone()) {
                    Ok(c) => chs.push(c),
                    Err(e) => return Err(format!("from_bytes: {e}")),
                }
            }
            if pk.batch {
                doc.apply_changes(chs).map_err(|e| format!("{e}"))
            } else {
                for c in chs {
                    if let Err(e) = doc.apply_changes(vec![c]) {
                        return Err(format!("{e}"));
                    }
                }
                Ok(())
            }
        }
    }

    pub fn deliver(&mut self, t: usize, pk: Packet) -> Outcome {
        self.commit_pending(t);
        if self.reps[t].isolated.is_some() {
            // changes may arrive under isolation; they must not affect isolated reads
            self.stats.bump("probe.delivery_under_isolation");
        }
        self.last_packet = Some(pk.clone());
        if pk.tainted {
            self.reps[t].tainted = true;
        }
        let rep = &mut self.reps[t];
        let result = World::apply_packet(&mut rep.doc, &pk);
        if result.is_ok() {
            rep.delivered.extend(pk.hashes.iter().cloned());
        }
        self.harvest(t);
        Outcome::Delivered {
            to: t,
            hashes: pk.hashes,
            result,
            stream: pk.stream,
        }
    }

    fn crash_restart(&mut self, r: usize, kind: CrashKind, opts: LoadOpts) -> Outcome {
        self.crash_restart_with(r, kind, opts, None)
    }

    fn crash_restart_with(&mut self, r: usize, kind: CrashKind, opts: LoadOpts, corrupt: Option<crate::mutate::Mutation>) -> Outcome {
        // a crash loses the open transaction
        if self.reps[r].doc.pending_ops() > 0 {
            self.reps[r].doc.rollback();
            self.purge_pool(r);
            self.stats.bump("fault.crash_lost_open_tx");
        }
        if self.reps[r].isolated.is_some() {
            return Outcome::Nop;
        }
        let d = &self.reps[r].disk;
        let (file, surviving_orphans): (Vec<u8>, BTreeSet<Hash>) = {
            let pieces: &[Piece] = match kind {
                CrashKind::Clean | CrashKind::Torn(_) => &d.current,
                CrashKind::LoseUnsynced => &d.durable,
                CrashKind::Stale(k) => {
                    if d.snapshots.is_empty() {
                        &d.durable
                    } else {
                        &d.snapshots[k as usize % d.snapshots.len()]
                    }
                }
            };
            let mut b = Disk::bytes_of(pieces);
            let mut orph: BTreeSet<Hash> = pieces.iter().flat_map(|p| p.orphans.iter().cloned()).collect();
            if let CrashKind::Torn(n) = kind {
                let cut = n as usize % (b.len() + 1);
                b.truncate(cut);
                orph.clear();
            }
            if let Some(m) = corrupt {
                let (mb, desc) = crate::mutate::mutate_chunks(&b, m);
                crate::monitor::set_subcontext(&format!("load: {desc}"));
                self.last_mutation.insert(r, crate::mutate::tag_of(m.class, &desc));
                b = mb;
                orph.clear();
            }
            (b, orph)
        };
        self.stats.bump(&format!("fault.crash.{}", crash_name(kind)));
        // all sessions of r die with it (in-flight messages lost, sync state lost unless persisted)
        let keys: Vec<(u8, u8)> = self
            .sessions
            .keys()
            .filter(|(a, b)| *a as usize == r || *b as usize == r)
            .cloned()
            .collect();
        for k in keys {
            self.sessions.remove(&k);
        }
        let enc = self.cfg.enc;
        let mut lo = automerge::LoadOptions::new().text_encoding(enc.to_am());
        if opts.partial_ignore {
            lo = lo.on_partial_load(automerge::OnPartialLoad::Ignore);
        } else {
            lo = lo.on_partial_load(automerge::OnPartialLoad::Error);
        }
        if opts.unverified_heads {
            lo = lo.verification_mode(automerge::VerificationMode::DontCheck);
        }
        if opts.migrate_strings {
            lo = lo.migrate_strings(automerge::StringMigration::ConvertToText);
        }
        let file_len = file.len();
        let loaded = if file.is_empty() {
            Err("no file".to_string())
        } else {
            AutoCommit::load_with_options(&file, lo).map_err(|e| format!("{e}"))
        };
        let (mut doc, res) = match loaded {
            Ok(d) => (d, Ok(())),
            Err(e) => (AutoCommit::new_with_encoding(enc.to_am()), Err(e)),
        };
        // the restart is lossless when everything the replica had applied is back
        let back: BTreeSet<Hash> = doc.get_changes(&[]).iter().map(|c| c.hash().0).collect();
        let lossless = self.reps[r].known.iter().all(|h| back.contains(h));
        if !lossless {
            self.stats.bump("fault.restart_lost_changes");
        }
        let actor = if opts.keep_actor && (lossless || self.cfg.p2 & 1 == 1) {
            if !lossless {
                self.stats.bump("fault.actor_reuse");
            }
            self.reps[r].actor.clone()
        } else {
            self.next_spare_actor()
        };
        let rep = &mut self.reps[r];
        rep.doc = doc.with_actor(ActorId::from(actor.as_slice()));
        rep.actor = actor;
        rep.restarts += 1;
        rep.sent_heads.clear();
        // the restarted process continues to append to what survived
        if res.is_ok() && !opts.migrate_strings {
            let p = Piece {
                bytes: file,
                kind: PieceKind::Save,
                writer_set: back,
                orphans: surviving_orphans.clone(),
            };
            rep.disk.current = vec![p.clone()];
            rep.disk.durable = vec![p];
        } else {
            rep.disk.current = vec![];
            rep.disk.durable = vec![];
        }
        self.reharvest(r);
        if res.is_ok() {
            self.reps[r].delivered.extend(surviving_orphans.iter().cloned());
        }
        Outcome::Restarted {
            r,
            loaded: res,
            kind,
            opts,
            file_len,
        }
    }

    fn session_sides(&self, f: usize, t: usize) -> Option<((u8, u8), usize, usize)> {
        if f == t {
            return None;
        }
        let (lo, hi) = (f.min(t), f.max(t));
        let key = (lo as u8, hi as u8);
        if !self.sessions.contains_key(&key) {
            return None;
        }
        let fs = if f == lo { 0 } else { 1 };
        Some((key, fs, 1 - fs))
    }

    pub fn sync_gen(&mut self, f: usize, t: usize) -> Outcome {
        let (key, fs, ts) = match self.session_sides(f, t) {
            Some(x) => x,
            None => return Outcome::Nop,
        };
        self.commit_pending(f);
        if self.reps[f].isolated.is_some() {
            return Outcome::Nop;
        }
        let s = self.sessions.get_mut(&key).unwrap();
        let msg = self.reps[f].doc.sync().generate_sync_message(&mut s.state[fs]);
        let bytes = msg.map(|m| m.encode());
        if let Some(b) = &bytes {
            s.queue[ts].push_back(b.clone());
            s.msgs_sent += 1;
            self.stats.bump("sync.msgs");
        }
        Outcome::SyncGen { from: f, to: t, msg: bytes }
    }

    pub fn sync_recv(&mut self, f: usize, t: usize) -> Outcome {
        let (key, _fs, ts) = match self.session_sides(f, t) {
            Some(x) => x,
            None => return Outcome::Nop,
        };
        if self.sessions[&key].queue[ts].is_empty() {
            return Outcome::Nop;
        }
        self.commit_pending(t);
        if self.reps[t].isolated.is_some() {
            return Outcome::Nop;
        }
        let s = self.sessions.get_mut(&key).unwrap();
        let bytes = s.queue[ts].pop_front().unwrap();
        let res = match automerge::sync::Message::decode(&bytes) {
            Ok(m) => {
                let hashes: Vec<Hash> = Vec::new();
                let _ = hashes;
                self.reps[t]
                    .doc
                    .sync()
                    .receive_sync_message(&mut s.state[ts], m)
                    .map_err(|e| format!("{e}"))
            }
            Err(e) => Err(format!("decode: {e}")),
        };
        let fresh = self.harvest(t);
        self.reps[t].delivered.extend(fresh);
        if self.reps[f].tainted {
            self.reps[t].tainted = true;
        }
        Outcome::SyncRecv { from: f, to: t, result: res }
    }

    /// full report of the applied set through the unscoped `Automerge` view (requires no open transaction)
    pub fn applied_set_unscoped(&mut self, r: usize) -> BTreeSet<Hash> {
        self.reps[r].doc.document().get_changes(&[]).iter().map(|c| c.hash().0).collect()
    }

    /// the document's own report of its applied set (full, not incremental)
    pub fn applied_set(&mut self, r: usize) -> BTreeSet<Hash> {
        self.reps[r].doc.get_changes(&[]).iter().map(|c| c.hash().0).collect()
    }
}

pub fn crash_name(k: CrashKind) -> &'static str {
    match k {
        CrashKind::Clean => "clean",
        CrashKind::LoseUnsynced => "lose_unsynced",
        CrashKind::Torn(_) => "torn",
        CrashKind::Stale(_) => "stale_snapshot",
    }
}

pub fn two_mut<T>(v: &mut [T], a: usize, b: usize) -> (&mut T, &mut T) {
    assert!(a != b);
    if a < b {
        let (x, y) = v.split_at_mut(b);
        (&mut x[a], &mut y[0])
    } else {
        let (x, y) = v.split_at_mut(a);
        (&mut y[0], &mut x[b])
    }
}

impl Replica {
    pub fn new(doc: AutoCommit, actor: Vec<u8>) -> Replica {
        Replica {
            doc,
            actor,
            clock: 1_700_000_000,
            known: BTreeSet::new(),
            last_heads: vec![],
            delivered: BTreeSet::new(),
            disk: Disk::default(),
            sent_heads: BTreeMap::new(),
            sync_store: BTreeMap::new(),
            isolated: None,
            tainted: false,
            restarts: 0,
        }
    }
}

pub fn objtype_name(t: ObjType) -> &'static str {
    match t {
        ObjType::Map => "map",
        ObjType::List => "list",
        ObjType::Text => "text",
        ObjType::Table => "table",
    }
}
