#!/usr/bin/env python3
"""prints the markdown table of DESIGN.md section 14 from /verif/seeded/*/{meta,confirm,result}.json"""
import json, os, glob, re
rows=[]
for d in sorted(glob.glob('/verif/seeded/*/'), key=lambda x: (re.sub(r'-\d+/$','',x), int(re.search(r'-(\d+)/$',x).group(1)))):
    name=os.path.basename(d.rstrip('/'))
    def rd(f):
        try: return json.load(open(d+f))
        except Exception: return None
    meta, conf, res = rd('meta.json') or {}, rd('confirm.json'), rd('result.json') or []
    summ=(meta.get('summary') or '').replace('\n',' ').replace('|','/')
    summ=re.sub(r'rust/automerge/src/','',summ)
    if len(summ)>150: summ=summ[:147]+'...'
    needs=(meta.get('needs') or '').replace('\n',' ').replace('|','/')
    if len(needs)>130: needs=needs[:127]+'...'
    if conf:
        c='demo ok' if conf.get('demo_exit_pristine')==0 and conf.get('demo_exit_patched') not in (0,None) else 'demo ?'
        if conf.get('suite_exit_patched') not in (0,None): c+=' (suite: %s test(s) failed)'%conf.get('suite_failed_tests')
    else: c='not re-run'
    caught=[r['property'] for r in res if r.get('exit')==1]
    missed=[r['property'] for r in res if r.get('exit')==0]
    other=[r['property']+':exit%s'%r.get('exit') for r in res if r.get('exit') not in (0,1)]
    verdict=('caught by '+', '.join(caught)) if caught else ('MISSED' if missed else 'not run')
    if caught and missed: verdict+=' (not by '+', '.join(missed)+')'
    if not caught and missed: verdict+=' (ran '+', '.join(missed)+')'
    if other: verdict+=' '+' '.join(other)
    rows.append((name,summ,needs,c,verdict))
print('| change | what was changed | needs | confirmed | quick checks |')
print('|---|---|---|---|---|')
for r in rows: print('| '+' | '.join(r)+' |')
n=len(rows); c=sum(1 for r in rows if r[4].startswith('caught'))
print('\n%d seeded changes, %d caught by at least one quick check, %d missed or not run.'%(n,c,n-c))
