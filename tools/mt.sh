#!/bin/sh
# usage: tools/mt.sh <seeded dir, e.g. seeded/C13-1> [property ids; default: the property the change was written for]
# Scratch-copy variant of tools/seeded.sh, so that several seeded changes can be measured in parallel and /repo stays
# free: a git worktree of /repo's HEAD with the patch applied + a copy of /verif/sim pointed at it, built into its own
# target dir under /tmp/mt/<name>, everything removed afterwards. Writes <dir>/result.json (same format as seeded.sh).
# With MT_DEMO=1 it first confirms the demonstration: demo.rs passes on the pristine worktree and fails with the patch,
# and runs `cargo test -p automerge` with the patch (MT_TESTS=1) - recorded in <dir>/confirm.json.
D="$(cd "$1" && pwd)"; shift
NAME=$(basename "$D")
OWN=$(echo "$NAME" | sed 's/-.*//')
PROPS="${*:-$OWN}"
W=/tmp/mt/$NAME
rm -rf "$W"; mkdir -p "$W/verif"
cleanup() { git -C /repo worktree remove --force "$W/repo" >/dev/null 2>&1; rm -rf "$W"; }
trap cleanup EXIT INT TERM
git -C /repo worktree add --detach "$W/repo" HEAD >/dev/null 2>&1 || { echo "worktree failed" >&2; exit 2; }
export CARGO_NET_OFFLINE=true
if [ -n "$MT_DEMO" ] && [ -f "$D/demo.rs" ]; then
  cp "$D/demo.rs" "$W/repo/rust/automerge/tests/seeded_demo.rs"
  (cd "$W/repo/rust" && CARGO_TARGET_DIR=$W/rtarget cargo test -p automerge --offline --test seeded_demo >"$W/demo_pristine.log" 2>&1); RP=$?
fi
git -C "$W/repo" apply "$D/patch.diff" || { echo "patch does not apply" >&2; exit 2; }
if [ -n "$MT_DEMO" ] && [ -f "$D/demo.rs" ]; then
  (cd "$W/repo/rust" && CARGO_TARGET_DIR=$W/rtarget cargo test -p automerge --offline --test seeded_demo >"$W/demo_patched.log" 2>&1); RM=$?
  RT=null
  if [ -n "$MT_TESTS" ]; then
    rm -f "$W/repo/rust/automerge/tests/seeded_demo.rs"
    (cd "$W/repo/rust" && CARGO_TARGET_DIR=$W/rtarget cargo test -p automerge -p hexane --offline >"$W/tests.log" 2>&1); RT=$?
    FAILED=$(grep -c "^test .* FAILED" "$W/tests.log")
  fi
  rm -f "$W/repo/rust/automerge/tests/seeded_demo.rs"
  printf '{"demo_exit_pristine":%s,"demo_exit_patched":%s,"suite_exit_patched":%s,"suite_failed_tests":%s,"demo_patched_tail":%s}\n' "$RP" "$RM" "$RT" "${FAILED:-null}" "$(grep -E 'panicked|assert|test result' "$W/demo_patched.log" | head -5 | jq -R . | jq -s -c .)" | jq . > "$D/confirm.json"
  rm -rf "$W/rtarget"
  echo "$NAME demo: pristine=$RP patched=$RM suite=$RT"
fi
cp -r /verif/sim "$W/sim"
sed -i "s#path = \"/repo/rust/automerge\"#path = \"$W/repo/rust/automerge\"#" "$W/sim/Cargo.toml"
sed -i "s#target-dir = .*#target-dir = \"$W/target\"#" "$W/sim/.cargo/config.toml"
mkdir -p "$W/target"; cp -r /verif/target/release "$W/target/release" 2>/dev/null
cp /verif/known_findings.json "$W/verif/"
(cd "$W/sim" && cargo build --release --offline >"$W/build.log" 2>&1) || { echo "$NAME: simulator build failed" >&2; tail -20 "$W/build.log" >&2; exit 2; }
TMP="$W/result.tmp"; echo "[" > "$TMP"; FIRST=1
for P in $PROPS; do
  LOG="$W/$P.log"
  START=$(date +%s)
  VERIF_DIR="$W/verif" "$W/target/release/amsim" check --property "$P" --tier ${MT_TIER:-quick} > "$LOG" 2>&1; RC=$?
  END=$(date +%s)
  SIGS=$(grep -E "^VIOLATION" "$LOG" | sed -E 's/.*oracle=([^ ]+) signature=([^ ]+).*/\1 \2/' | sort -u | head -8 | jq -R . | jq -s -c .)
  [ $FIRST = 1 ] || echo "," >> "$TMP"; FIRST=0
  printf '{"property":"%s","exit":%s,"seconds":%s,"violations":%s}' "$P" "$RC" "$((END-START))" "${SIGS:-[]}" >> "$TMP"
  echo "$NAME $P exit=$RC $(grep -c '^VIOLATION' "$LOG") violation line(s) $((END-START))s"
  [ -n "$MT_KEEP" ] && { mkdir -p /tmp/mtkeep/$NAME; cp "$LOG" /tmp/mtkeep/$NAME/; cp -r "$W/verif/replays" /tmp/mtkeep/$NAME/ 2>/dev/null; }
done
echo "]" >> "$TMP"
# merge with earlier measurements of the same seeded change (latest result per property wins)
if [ -f "$D/result.json" ]; then
  jq -s '(.[0] + .[1]) | group_by(.property) | map(.[-1])' "$D/result.json" "$TMP" > "$W/merged.json" && cp "$W/merged.json" "$D/result.json"
else
  jq . "$TMP" > "$D/result.json"
fi
