#!/bin/sh
# usage: mk.sh <ID>  -> creates worktree and prints prompt file path
ID=$1
mkdir -p /tmp/mut/$ID
[ -d /tmp/mut/$ID/wt ] || git -C /repo worktree add --detach /tmp/mut/$ID/wt HEAD >/dev/null 2>&1
PROP=$(grep "\"id\": \"$ID\"" /verif/properties.jsonl | jq .)
python3 - "$ID" <<PY
import sys,json
ID=sys.argv[1]
t=open('/tmp/mut/PROMPT.tmpl').read()
prop=[l for l in open('/verif/properties.jsonl') if json.loads(l)['id']==ID][0]
prop=json.dumps(json.loads(prop),indent=1)
t=t.replace('@WT@','/tmp/mut/%s/wt'%ID).replace('@OUT@','/tmp/mut/%s/out'%ID).replace('@ID@',ID).replace('@PROP@',prop)
open('/tmp/mut/%s/prompt.txt'%ID,'w').write(t)
PY
echo /tmp/mut/$ID/prompt.txt
