#!/bin/sh
# usage: tools/soak.sh <tier> <first-seed> <last-seed> <property>...  — unknown violations per property over several VERIF_SEED values
TIER="$1"; A="$2"; B="$3"; shift 3
for P in "$@"; do
  for S in $(seq "$A" "$B"); do
    VERIF_SEED=$S timeout 3000 /verif/target/release/amsim check --property "$P" --tier "$TIER" 2>&1 | grep -E "^(VIOLATION|WARNING|HARNESS)" | sed -E 's/replay=[^ ]+//; s/detail=.*//' 
  done | sort | uniq -c | sort -rn | sed "s/^/$P: /"
  echo "$P: done seeds $A..$B"
done
