#!/bin/sh
# usage: tools/seeded.sh <seeded dir, e.g. seeded/C13-1> [property ids to run; default: the property the change was written for]
# Applies the seeded change to /repo's working tree, runs the quick checks, restores /repo, writes <dir>/result.json.
# /repo must be clean before and is clean afterwards.
D="$(cd "$1" && pwd)"; shift
[ -f "$D/patch.diff" ] || { echo "no $D/patch.diff" >&2; exit 2; }
if [ -n "$(git -C /repo status --porcelain --untracked-files=no)" ]; then echo "/repo working tree is not clean" >&2; exit 2; fi
OWN=$(basename "$D" | sed "s/-.*//")
PROPS="${*:-$OWN}"
git -C /repo apply "$D/patch.diff" || { echo "patch does not apply" >&2; exit 2; }
trap 'git -C /repo checkout -- . ; (cd /verif/sim && CARGO_NET_OFFLINE=true cargo build --release --offline >/dev/null 2>&1)' EXIT INT TERM
OUT="$D/result.json"
TMP=$(mktemp)
echo "[" > "$TMP"; FIRST=1
for P in $PROPS; do
  LOG=$(mktemp)
  START=$(date +%s)
  /verif/check.sh "$P" quick > "$LOG" 2>&1; RC=$?
  END=$(date +%s)
  SIGS=$(grep -E "^VIOLATION" "$LOG" | sed -E 's/.*oracle=([^ ]+) signature=([^ ]+).*/\1 \2/' | sort -u | head -8 | jq -R . | jq -s -c .)
  [ $FIRST = 1 ] || echo "," >> "$TMP"; FIRST=0
  printf '{"property":"%s","exit":%s,"seconds":%s,"violations":%s}' "$P" "$RC" "$((END-START))" "${SIGS:-[]}" >> "$TMP"
  echo "$D $P exit=$RC $(grep -c '^VIOLATION' "$LOG") violation line(s)"
  rm -f "$LOG"
done
echo "]" >> "$TMP"
jq . "$TMP" > "$OUT"; rm -f "$TMP"
