#!/bin/sh
# usage (from a vp run snapshot or /verif): tools/soak_all.sh <tier> <seed> [props...]
# builds its own simulator binary into ./target (so that a rebuild of /verif/target does not disturb it) and runs the
# given tier of every (or the given) property with VERIF_DIR=. ; prints one line per property plus unknown violations.
TIER=$1; SEED=$2; shift 2
HERE=$(pwd)
(cd sim && CARGO_NET_OFFLINE=true CARGO_TARGET_DIR=$HERE/target cargo build --release --offline >/dev/null 2>&1) || { echo "build failed"; exit 2; }
PROPS="${*:-$(jq -r '.checks[].property_id' MANIFEST.json)}"
for P in $PROPS; do
  START=$(date +%s)
  OUT=$(VERIF_SEED=$SEED VERIF_DIR=$HERE nice -n 10 $HERE/target/release/amsim check --property $P --tier $TIER 2>&1); RC=$?
  END=$(date +%s)
  echo "$P seed=$SEED exit=$RC $((END-START))s $(echo "$OUT" | grep -E "$TIER:" | cut -c1-140)"
  echo "$OUT" | grep -E "^(VIOLATION|WARNING|HARNESS)" | sed -E 's/replay=[^ ]+//; s/detail=(.{0,260}).*/detail=\1/' | sort | uniq -c | sed 's/^/    /'
done
