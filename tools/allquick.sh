#!/bin/sh
# usage: tools/allquick.sh [seed]  — runs every claimed quick check (without rebuilding) and prints one line per property + unknown violations
S="${1:-}"
for P in $(jq -r '.checks[].property_id' /verif/MANIFEST.json); do
  START=$(date +%s)
  if [ -n "$S" ]; then OUT=$(VERIF_SEED=$S /verif/target/release/amsim check --property $P --tier quick 2>&1); else OUT=$(/verif/target/release/amsim check --property $P --tier quick 2>&1); fi
  RC=$?
  END=$(date +%s)
  echo "$P exit=$RC $((END-START))s $(echo "$OUT" | grep -E 'quick:' | cut -c1-120)"
  echo "$OUT" | grep -E "^(VIOLATION|WARNING|HARNESS)" | sed -E 's/replay=[^ ]+//; s/detail=(.{0,260}).*/detail=\1/' | sort | uniq -c | sed 's/^/    /'
done
