#!/usr/bin/env python3
"""Regenerates /verif/MANIFEST.json from the table below and validates it against the schema."""
import json, subprocess, sys

HOOK_COMMITS = ["e632d3635"]

# id -> (level category, technique, level text, level_note, design_ref)
CLAIMS = {
    "C01": ("exploration",
            "deterministic multi-replica simulation with gossip faults; quiesce through 7 ingestion paths; pairwise state equality",
            "Seeded search over multi-replica histories and delivery schedules (loss, duplication, reordering, batches, clean restarts); whenever two replicas report equal change sets, and after every replica has been driven to the full set through a different ingestion path, their observable trees and heads must be equal. Sampling, not enumeration: right level because the space of histories x delivery orders x paths is unbounded.",
            "Trusts the public read API as the observation (cross-checked reads), the harness change registry, and the determinism of the library given hooked randomness.",
            "DESIGN.md 5/C01"),
    "C02": ("exploration",
            "deterministic simulation; op-by-op comparison with an independent reference CRDT interpreter (R1) over decoded changes",
            "After every event that changes a replica's applied set the state read through the API is compared with an independent ~500-line interpreter of the decoded operation set (multi-value registers, RGA order, counters, marks), also at sampled historical heads.",
            "Trusts Change::decode (ExpandedChange) as the faithful operation list, and the reference interpreter's reading of the property text.",
            "DESIGN.md 3/R1, 5/C02"),
}

CLAIMS.update({
    "C04": ("exploration",
            "deterministic simulation; per-change metadata model (seq, start_op, deps) against the creating replica's pre-state; heads = maximal elements after every event",
            "Every change is checked at the event that creates it against the pre-state recorded by the harness (applied set, heads, isolation heads), and heads are compared with the maximal elements of the applied set after every event, over seeded programs mixing commits, empty commits, merges, forks, actor switches, isolation and restarts.",
            "Trusts Change::decode for metadata and the registry's record of which replica created which change.",
            "DESIGN.md 5/C04"),
    "C05": ("exploration",
            "deterministic gossip simulation with reordering/loss/duplication/subsets; delivered-set model (D, greatest dep-closed A) checked after every delivery",
            "The harness keeps the delivered set per replica; after each delivery/restart the applied set must equal the greatest dep-closed subset, heads its maxima, the state R1 of it, and get_missing_deps the model's answer; the quiesce phase delivers the rest in shuffled order and requires equal final states.",
            "Assumes no actor reuse in this workload; sync is not used as a delivery path here (covered by C20/C21).",
            "DESIGN.md 5/C05"),
    "C10": ("exploration",
            "deterministic simulation; registry of change bytes at creation compared with every later retrieval path; harness-side SHA-256; get_changes(have) vs registry DAG",
            "At probe points and at the end, on every replica and again after load(save()): get_change_by_hash/get_changes/get_changes_added/get_last_local_change are compared byte-for-byte with the registry, hashes recomputed by the harness, and get_changes(have) against the registry DAG (exact set, deps first).",
            "Trusts the harness SHA-256 (sha2 crate) and registry; have-sets are those that occurred as heads in the run plus one with a foreign hash.",
            "DESIGN.md 5/C10"),
})

NOT_APPLICABLE = {
    "C33": "CLI JSON import/export is a pure function of one JSON input run through a separate binary: no schedule, fault, crash point or multi-party history for a simulator to own (DESIGN.md 6).",
    "C34": "Hexane columns vs Vec is single-threaded model-based testing of an in-memory data structure over edit programs: no schedule, clock, fault or interleaving (DESIGN.md 6).",
    "C35": "Hexane encode/decode round trips are pure functions of bytes on hexane's own API; corrupted documents reach hexane only through C15/C16 (DESIGN.md 6).",
    "C36": "C API memory safety is a for-all-programs memory-safety claim across a C ABI; needs a memory checker over generated C programs, has no schedule or fault dimension (DESIGN.md 6).",
}

NOT_BUILT_REASON = "not claimed yet: the simulator check for this property is not built at this commit (planned in DESIGN.md 9.2); listed here only so that the manifest is complete"


def main():
    props = [json.loads(l) for l in open("/verif/properties.jsonl")]
    checks = []
    na = []
    for p in props:
        pid = p["id"]
        if pid in CLAIMS:
            cat, tech, text, note, ref = CLAIMS[pid]
            checks.append({
                "property_id": pid,
                "quick_cmd": f"./check.sh {pid} quick",
                "thorough_cmd": f"./check.sh {pid} thorough",
                "evidence_file": f"/verif/evidence/{pid}.json",
                "replay_cmd_template": "/verif/target/release/amsim replay {path}",
                "engine": "amsim",
                "level_claimed": {"category": cat, "text": text, "design_ref": ref},
                "level_note": note,
                "technique": tech,
            })
        elif pid in NOT_APPLICABLE:
            na.append({"property_id": pid, "reason": NOT_APPLICABLE[pid]})
        else:
            na.append({"property_id": pid, "reason": NOT_BUILT_REASON})
    manifest = {
        "version": 1,
        "setup_cmd": "cd /verif/sim && CARGO_NET_OFFLINE=true cargo build --release --offline",
        "hooks": {
            "guard": "cargo feature `verif_hooks` of the automerge crate (default off)",
            "enable": "the simulator crate /verif/sim depends on automerge by path with features = [\"verif_hooks\"]",
            "baseline_off_cmd": "cd /repo/rust && cargo nextest run --workspace --no-fail-fast --tool-config-file pb:/w/lib/nextest.toml --profile pb --test-threads 8 --offline || cargo test --workspace --no-fail-fast --offline",
            "source_commits": HOOK_COMMITS,
            "add_only": True,
        },
        "engines": [{
            "name": "amsim",
            "path": "/verif/sim",
            "serves_properties": [c["property_id"] for c in checks],
            "kind_free_text": "deterministic simulator with fault injection: one PRNG-seeded event list (client calls, gossip, sync, storage, crashes) executed against real automerge replicas; oracles are reference models (R1 interpreter, sequential API model, patch applier, storage model); orchestrator + single-threaded worker processes; ddmin shrinking; replay files",
        }],
        "checks": checks,
        "not_applicable": na,
        "notes": "Every check: ./check.sh <ID> <tier> rebuilds /verif/sim against /repo's working tree and runs `amsim check`. Exit 0 held, 1 violation (VIOLATION line with replay file), 2 harness error. Known findings: /verif/known_findings.json.",
    }
    json.dump(manifest, open("/verif/MANIFEST.json", "w"), indent=1)
    try:
        import jsonschema
        jsonschema.validate(manifest, json.load(open("/root/.vp/MANIFEST.schema.json")))
        print("MANIFEST.json valid;", len(checks), "claimed,", len(na), "not claimed")
    except ImportError:
        print("jsonschema not available; manifest written unvalidated")


if __name__ == "__main__":
    main()
