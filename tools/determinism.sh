#!/bin/sh
# Determinism proof: every run index executed in several separate processes (whole range at once, and in
# 16 slices as the workers do) must give byte-identical log lines (steps, interleaving digest, state digest,
# stats digest, verdict). usage: tools/determinism.sh <N> [property ...]
N="${1:-2000}"; shift
BIN=/verif/target/release/amsim
PROPS="$@"; [ -z "$PROPS" ] && PROPS=$($BIN list | cut -d' ' -f1)
T=$(mktemp -d /tmp/amsim-det.XXXXXX); rc=0
for p in $PROPS; do
  $BIN log --property $p --from 0 --to $N > $T/a.$p &
  $BIN log --property $p --from 0 --to $N > $T/b.$p &
  ( for k in 0 1 2 3 4 5 6 7 8 9 10 11 12 13 14 15; do
      lo=$((N*k/16)); hi=$((N*(k+1)/16)); $BIN log --property $p --from $lo --to $hi > $T/c.$p.$k &
    done; wait; cat $(for k in 0 1 2 3 4 5 6 7 8 9 10 11 12 13 14 15; do echo $T/c.$p.$k; done) > $T/c.$p )
  wait
  if cmp -s $T/a.$p $T/b.$p && cmp -s $T/a.$p $T/c.$p; then echo "$p: $N runs x 3 process layouts identical"; else echo "$p: NONDETERMINISM"; diff $T/a.$p $T/b.$p | head -5; diff $T/a.$p $T/c.$p | head -5; rc=1; fi
done
rm -rf $T; exit $rc
