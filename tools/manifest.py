#!/usr/bin/env python3
"""Regenerates /verif/MANIFEST.json from tools/claims/<ID>.json and tools/not_applicable.json, and validates it."""
import json, os, glob

HOOK_COMMITS = ["e632d3635", "f1dae8791", "b8cb9c0c6"]
NOT_BUILT_REASON = "not claimed yet: the simulator check for this property is not built at this commit (planned in DESIGN.md 9.2); listed here only so that the manifest is complete"

def main():
    here = os.path.dirname(os.path.abspath(__file__))
    props = [json.loads(l) for l in open("/verif/properties.jsonl")]
    claims = {os.path.basename(f)[:-5]: json.load(open(f)) for f in glob.glob(os.path.join(here, "claims", "*.json"))}
    not_applicable = json.load(open(os.path.join(here, "not_applicable.json")))
    checks, na = [], []
    for p in props:
        pid = p["id"]
        if pid in claims:
            c = claims[pid]
            checks.append({
                "property_id": pid,
                "quick_cmd": f"./check.sh {pid} quick",
                "thorough_cmd": f"./check.sh {pid} thorough",
                "evidence_file": f"/verif/evidence/{pid}.json",
                "replay_cmd_template": "/verif/target/release/amsim replay {path}",
                "engine": "amsim",
                "level_claimed": {"category": c["category"], "text": c["text"], "design_ref": c["design_ref"]},
                "level_note": c["note"],
                "technique": c["technique"],
            })
        elif pid in not_applicable:
            na.append({"property_id": pid, "reason": not_applicable[pid]})
        else:
            na.append({"property_id": pid, "reason": NOT_BUILT_REASON})
    manifest = {
        "version": 1,
        "setup_cmd": "cd /verif/sim && CARGO_NET_OFFLINE=true cargo build --release --offline",
        "hooks": {
            "guard": "cargo feature `verif_hooks` of the automerge crate (default off)",
            "enable": "the simulator crate /verif/sim depends on automerge by path with features = [\"verif_hooks\"]",
            "baseline_off_cmd": "cd /repo/rust && cargo nextest run --workspace --no-fail-fast --tool-config-file pb:/w/lib/nextest.toml --profile pb --test-threads 8 --offline || cargo test --workspace --no-fail-fast --offline",
            "source_commits": HOOK_COMMITS,
            "add_only": True,
        },
        "engines": [{
            "name": "amsim",
            "path": "/verif/sim",
            "serves_properties": [c["property_id"] for c in checks],
            "kind_free_text": "deterministic simulator with fault injection: one PRNG-seeded event list (client calls, gossip, sync, storage, crashes) executed against real automerge replicas; oracles are reference models (R1 interpreter, sequential API model, patch applier, storage model); orchestrator + single-threaded worker processes; ddmin shrinking; replay files",
        }],
        "checks": checks,
        "not_applicable": na,
        "notes": "Every check: ./check.sh <ID> <tier> rebuilds /verif/sim against /repo's working tree and runs `amsim check`. Exit 0 held, 1 violation (VIOLATION line with replay file), 2 harness error. Known findings: /verif/known_findings.json. In every check a library panic during an honest run (no crafted input so far) is a violation of the property being run (oracle no_panic_in_run) unless C37 records it, and a run exceeding 120 s is a violation (oracle terminates); thorough = the quick tier's generator over six times its run indexes. Seeded changes and which check catches which: DESIGN.md 14.",
    }
    json.dump(manifest, open("/verif/MANIFEST.json", "w"), indent=1)
    try:
        import jsonschema
        jsonschema.validate(manifest, json.load(open("/root/.vp/MANIFEST.schema.json")))
        print("MANIFEST.json valid;", len(checks), "claimed,", len(na), "not claimed")
    except ImportError:
        print("jsonschema not available; manifest written unvalidated")

if __name__ == "__main__":
    main()
