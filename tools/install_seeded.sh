#!/bin/sh
# usage: tools/install_seeded.sh <ID>   copies /tmp/mut/<ID>/out/{patchN.diff,demoN.rs,meta.json} to /verif/seeded/<ID>/<N>/
ID=$1; SRC=/tmp/mut/$ID/out
for N in 1 2 3; do
  [ -f $SRC/patch$N.diff ] || continue
  mkdir -p /verif/seeded/$ID/$N
  cp $SRC/patch$N.diff /verif/seeded/$ID/$N/patch.diff
  [ -f $SRC/demo$N.rs ] && cp $SRC/demo$N.rs /verif/seeded/$ID/$N/demo.rs
  jq --argjson i $((N-1)) '{property:.property, written_for:.property} + .changes[$i]' $SRC/meta.json > /verif/seeded/$ID/$N/meta.json 2>/dev/null || cp $SRC/meta.json /verif/seeded/$ID/$N/meta.json
done
ls /verif/seeded/$ID
