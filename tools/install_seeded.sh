#!/bin/sh
# usage: tools/install_seeded.sh <ID>   copies /tmp/mut/<ID>/out/{patchN.diff,demoN.rs,meta.json} to /verif/seeded/<ID>-<N>/
ID=$1; SRC=/tmp/mut/$ID/out
for N in 1 2 3; do
  [ -f $SRC/patch$N.diff ] || continue
  D=/verif/seeded/$ID-$N
  # do not overwrite an existing seeded change: use the next free number
  K=$N; while [ -d /verif/seeded/$ID-$K ]; do K=$((K+1)); done; D=/verif/seeded/$ID-$K
  mkdir -p $D
  cp $SRC/patch$N.diff $D/patch.diff
  [ -f $SRC/demo$N.rs ] && cp $SRC/demo$N.rs $D/demo.rs
  jq --argjson i $((N-1)) '{property:.property, written_for:.property} + .changes[$i]' $SRC/meta.json > $D/meta.json 2>/dev/null || cp $SRC/meta.json $D/meta.json
  echo $D
done
