#!/bin/sh
# usage: check.sh <property id> quick|thorough   (env: VERIF_SEED)
# Rebuilds the simulator against /repo's current working tree (hooks feature on), then runs the check.
ID="$1"; TIER="${2:-quick}"
cd /verif/sim || exit 2
if ! CARGO_NET_OFFLINE=true cargo build --release --offline >/verif/target/build.$ID.log 2>&1; then
  # target dir may not exist yet on the very first build
  mkdir -p /verif/target
  if ! CARGO_NET_OFFLINE=true cargo build --release --offline >/verif/target/build.$ID.log 2>&1; then
    echo "HARNESS ERROR: building the simulator against /repo failed" >&2
    tail -30 /verif/target/build.$ID.log >&2
    exit 2
  fi
fi
exec /verif/target/release/amsim check --property "$ID" --tier "$TIER"
