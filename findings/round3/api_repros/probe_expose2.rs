use automerge::{transaction::Transactable, AutoCommit, ObjType, ReadDoc, ROOT, ActorId};

fn run(a_actor: u8, b_actor: u8) {
    let mut a = AutoCommit::new().with_actor(ActorId::from(vec![a_actor]));
    let t = a.put_object(ROOT, "t", ObjType::Text).unwrap();
    a.splice_text(&t, 0, 0, "abcdef").unwrap();
    a.commit();
    let mut b = a.fork().with_actor(ActorId::from(vec![b_actor]));
    a.put(&t, 0, 3).unwrap();
    a.commit();
    b.put(&t, 0, "hello").unwrap();
    b.commit();
    a.merge(&mut b).unwrap();
    a.diff_incremental();
    let before = a.text(&t).unwrap();
    b.put(&t, 0, 0).unwrap();
    b.commit();
    a.merge(&mut b).unwrap();
    println!("a={a_actor} b={b_actor}: {before:?} -> {:?}: {:?}", a.text(&t).unwrap(), a.diff_incremental().iter().map(|p| format!("{:?}", p.action)).collect::<Vec<_>>());
}

#[test]
fn patches() { run(1,2); run(2,1); }
