use automerge::{transaction::Transactable, AutoCommit, ObjType, ReadDoc, ROOT, ActorId};

fn scenario(a_actor: u8, b_actor: u8) {
    let mut a = AutoCommit::new().with_actor(ActorId::from(vec![a_actor]));
    let t = a.put_object(ROOT, "t", ObjType::Text).unwrap();
    a.splice_text(&t, 0, 0, "abc").unwrap();
    a.commit();
    let mut b = a.fork().with_actor(ActorId::from(vec![b_actor]));
    // concurrent puts on the same text element
    a.put(&t, 0, 3).unwrap();
    a.commit();
    b.put(&t, 0, "hello").unwrap();
    b.commit();
    // a learns of b's put: element 0 is now conflicted on a
    a.merge(&mut b).unwrap();
    a.diff_incremental();
    // b (which has not seen a's put) deletes the element it sees
    b.splice_text(&t, 0, 1, "").unwrap();
    b.commit();
    let before = a.text(&t).unwrap();
    a.merge(&mut b).unwrap();
    let patches = a.diff_incremental();
    println!("actors a={a_actor} b={b_actor}: before={before:?} after={:?} patches={patches:?}", a.text(&t).unwrap());
}

#[test]
fn exposed_text_value() {
    scenario(1, 2);
    scenario(2, 1);
}
