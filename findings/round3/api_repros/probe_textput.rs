use automerge::{transaction::Transactable, AutoCommit, ObjType, ReadDoc, ROOT, ActorId};

fn run(a_actor: u8, b_actor: u8) {
    let mut a = AutoCommit::new().with_actor(ActorId::from(vec![a_actor]));
    let t = a.put_object(ROOT, "t", ObjType::Text).unwrap();
    a.splice_text(&t, 0, 0, "abcdef").unwrap();
    a.commit();
    let mut b = a.fork().with_actor(ActorId::from(vec![b_actor]));
    a.diff_incremental();
    a.put(&t, 0, "WXYZ").unwrap();
    a.commit();
    println!("a={a_actor} b={b_actor} local put WXYZ: {:?}", a.diff_incremental().iter().map(|p| format!("{:?}", p.action)).collect::<Vec<_>>());
    b.put(&t, 0, "é").unwrap();
    b.commit();
    a.merge(&mut b).unwrap();
    println!("  merge é -> text {:?}: {:?}", a.text(&t).unwrap(), a.diff_incremental().iter().map(|p| format!("{:?}", p.action)).collect::<Vec<_>>());
    a.put(&t, 0, "t").unwrap();
    a.commit();
    println!("  local put t -> text {:?}: {:?}", a.text(&t).unwrap(), a.diff_incremental().iter().map(|p| format!("{:?}", p.action)).collect::<Vec<_>>());
}

#[test]
fn patches() { run(1,2); run(2,1); }
