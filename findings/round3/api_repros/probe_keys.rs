use automerge::{transaction::Transactable, AutoCommit, ReadDoc, ScalarValue, ROOT, ActorId};

fn run(order: [u8;3], strpos: usize) -> (Vec<String>, Vec<String>) {
    let mut docs: Vec<AutoCommit> = order.iter().map(|a| AutoCommit::new().with_actor(ActorId::from(vec![*a]))).collect();
    for (i, d) in docs.iter_mut().enumerate() {
        if i == strpos { d.put(ROOT, "a", "c").unwrap(); } else { d.put(ROOT, "a", ScalarValue::counter(1 + i as i64)).unwrap(); }
        d.commit();
    }
    let (first, rest) = docs.split_at_mut(1);
    let a = &mut first[0];
    for d in rest.iter_mut() { a.merge(d).unwrap(); }
    a.increment(ROOT, "a", -2).unwrap();
    a.commit();
    let keys: Vec<String> = a.keys(ROOT).collect();
    let l = AutoCommit::load(&a.save()).unwrap();
    (keys, l.keys(ROOT).collect())
}

#[test]
fn keys_twice() {
    let mut bad = 0;
    for order in [[1u8,2,3],[1,3,2],[2,1,3],[2,3,1],[3,1,2],[3,2,1]] {
        for strpos in 0..4 {
            let (k, kl) = run(order, strpos);
            println!("order={:?} strpos={} keys={:?} after load={:?}", order, strpos, k, kl);
            if k.len() != 1 || kl.len() != 1 { bad += 1; }
        }
    }
    assert_eq!(bad, 0);
}
